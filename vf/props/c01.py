"""C01 - the shell forwards every port event to its counterpart exactly once, intact."""
from hypothesis import strategies as st

from vf import gen_cfg
from vf.cxx import farm
from vf.props import c06
from vf.runner import Fail

RULE = ('Hypothesis draws feature-forced shell models x valid configurations (all spellings of the '
        'port selections, multi-client, both facility origins); the generated shell is compiled '
        'against the mock runtime and an instrumented mock component, and a driver exercises every '
        '(port, event) pair in all four roles (client -> provides-in, component -> provides-out, '
        'component -> requires-in, peer -> requires-out) with argument values unique per call and '
        'position, scripted replies and scripted out/inout results. Oracle on the trace: exactly one '
        'recorder entry per call, on the same-named event of the same-named port on the other side, '
        'arguments equal position by position, reply and out/inout values back at the caller, no '
        'other recorder fired; the set of pairs exercised equals the set derived from the model; per '
        'port one event is also raised by the component *while it handles* an incoming event (for a '
        'multi-client port: an out-event in answer to the release), both must arrive. '
        'Non-trivial: a call with >= 1 argument or a non-void reply; distinct by (model hash, port, '
        'event, role). evaluations counts calls, not models.')
ASSUMPTIONS = c06.ASSUMPTIONS + ['release events of multi-client ports reply void']


CLIENT_PAIRS = [('A', 'B'), ('B', 'A'), ('ui', 'cli'), ('client10', 'client1'), ('p', 'panel'),
                ('z', 'a'), ('Alice~s', '~sAlice')]


def clients_of(info):
    """The two client identifiers of a multi-client case, in registration order: ascending,
    descending, prefixes of each other - a pure function of the configuration."""
    import json
    import zlib
    return CLIENT_PAIRS[zlib.crc32(json.dumps(info.spec, sort_keys=True).encode()) % len(CLIENT_PAIRS)]


def plan(info):
    """[(command line, expectation dict)] covering every exposed (port, event) pair."""
    steps = []
    mc = info.mc
    for p in info.ports:
        nm = p['name']
        for ev in p['itf']['elem']['events']:
            if info.is_mc(p):
                continue
            if p['dir'] == 'provides' and ev['dir'] == 'in':
                steps.append((f'call {nm} {ev["name"]}', {'role': 'client->provides-in', 'port': nm,
                                                          'ev': ev, 'side': 'comp', 'hport': nm}))
            elif p['dir'] == 'provides':
                steps.append((f'comp {nm} {ev["name"]}', {'role': 'component->provides-out', 'port': nm,
                                                          'ev': ev, 'side': 'user', 'hport': nm}))
            elif ev['dir'] == 'in':
                steps.append((f'comp {nm} {ev["name"]}', {'role': 'component->requires-in', 'port': nm,
                                                          'ev': ev, 'side': 'user', 'hport': nm}))
            else:
                steps.append((f'raise {nm} {ev["name"]}', {'role': 'peer->requires-out', 'port': nm,
                                                           'ev': ev, 'side': 'comp', 'hport': nm}))
    if mc:
        p = [q for q in info.ports if info.is_mc(q)][0]
        nm = p['name']
        evs = p['itf']['elem']['events']
        claim = [e for e in evs if e['name'] == mc['claim']][0]
        release = [e for e in evs if e['name'] == mc['release']][0]
        enum = info.types.reply(p['itf']['fqn'], claim)
        assert enum[1] == 'enum'
        from vf.model import declarations, lookup
        ed = lookup(declarations(info.sm['model']), claim['ret'], p['itf']['fqn'])[0]
        gidx = ed['elem']['fields'].index(mc['grant'][0])
        first, second = clients_of(info)
        for client in (first, second):
            steps.append((f'force {nm}.{claim["name"]} {gidx}', None))
            steps.append((f'mccall {client} {nm} {claim["name"]}',
                          {'role': 'client->provides-in', 'port': nm, 'ev': claim, 'side': 'comp',
                           'hport': nm, 'forced': gidx}))
            for ev in evs:
                if ev['dir'] == 'in' and ev is not claim and ev is not release:
                    steps.append((f'mccall {client} {nm} {ev["name"]}',
                                  {'role': 'client->provides-in', 'port': nm, 'ev': ev, 'side': 'comp',
                                   'hport': nm}))
                elif ev['dir'] == 'out':
                    steps.append((f'pcomp {nm} {ev["name"]}',
                                  {'role': 'component->provides-out', 'port': nm, 'ev': ev,
                                   'side': 'user', 'hport': f'{nm}@{client}'}))
            outs = [e for e in evs if e['dir'] == 'out']
            if outs and client == second:
                # the component answers the release with an out-event of its own, raised while it
                # handles the release: both have to arrive (the release at the component, the
                # out-event at the releasing client, who still holds the claim)
                steps.append((f'react {nm}.{release["name"]} {nm} {outs[-1]["name"]}', None))
                steps.append((f'mccall {client} {nm} {release["name"]}',
                              {'role': 'client->provides-in', 'port': nm, 'ev': release, 'side': 'comp',
                               'hport': nm, 'reaction': {'ev': outs[-1], 'side': 'user',
                                                         'hport': f'{nm}@{client}'}}))
                steps.append(('unreact', None))
            else:
                steps.append((f'mccall {client} {nm} {release["name"]}',
                              {'role': 'client->provides-in', 'port': nm, 'ev': release,
                               'side': 'comp', 'hport': nm}))
    if mc and [e for e in evs if e['dir'] == 'out']:
        # the arbiter grants the second client while the first has not released (an overrule): the
        # out-events belong to the client granted last
        out_ev = [e for e in evs if e['dir'] == 'out'][0]
        for client in (first, second):
            steps.append((f'force {nm}.{claim["name"]} {gidx}', None))
            steps.append((f'mccall {client} {nm} {claim["name"]}',
                          {'role': 'client->provides-in', 'port': nm, 'ev': claim, 'side': 'comp',
                           'hport': nm, 'forced': gidx}))
        steps.append((f'pcomp {nm} {out_ev["name"]}',
                      {'role': 'component->provides-out', 'port': nm, 'ev': out_ev, 'side': 'user',
                       'hport': f'{nm}@{second}'}))
        for client in (second, first):
            steps.append((f'mccall {client} {nm} {release["name"]}',
                          {'role': 'client->provides-in', 'port': nm, 'ev': release, 'side': 'comp',
                           'hport': nm}))
    # events the component raises while it handles an event (one per plain port that has both)
    for p in info.ports:
        if info.is_mc(p):
            continue
        nm = p['name']
        own = 'in' if p['dir'] == 'provides' else 'out'
        ins = [e for e in p['itf']['elem']['events'] if e['dir'] == own]
        backs = [e for e in p['itf']['elem']['events'] if e['dir'] != own]
        if not ins or not backs:
            continue
        trig, back = ins[-1], backs[0]
        steps.append((f'react {nm}.{trig["name"]} {nm} {back["name"]}', None))
        steps.append((f'{"call" if own == "in" else "raise"} {nm} {trig["name"]}',
                      {'role': 'client->provides-in' if own == 'in' else 'peer->requires-out',
                       'port': nm, 'ev': trig, 'side': 'comp', 'hport': nm,
                       'reaction': {'ev': back, 'side': 'user', 'hport': nm}}))
        steps.append(('unreact', None))
    return steps


def expected_pairs(info):
    return {(p['name'], ev['name']) for p in info.ports for ev in p['itf']['elem']['events']}


def script_for(info, steps):
    imp = int(not info.create)
    script = [f'locator {imp} {imp} 1 0', 'construct inst']
    if info.mc:
        import json
        import zlib
        first, second = clients_of(info)
        if zlib.crc32(json.dumps(info.spec, sort_keys=True).encode()) // 7 % 2:
            # both enclosures are fetched before either client's out-events are bound
            script.append(f'clientsff {first} {second}')
        else:
            script += [f'client {first} -', f'client {second} -']
    script += ['bind -', 'final 1']
    for i, (cmd, exp) in enumerate(steps):
        if exp is not None:
            script.append(f'mark s{i}')
        script.append(cmd)
        if exp is not None:
            script.append('idle')
            script.append(f'mark after{i}')
    script.append('mark end')
    return script


def windows(trace):
    """Split the trace at the 'mark' notes: {mark name: [lines]}."""
    out, cur = {}, None
    for t in trace:
        if t.get('k') == 'note' and t.get('what') == 'mark':
            cur = t['m']
            out[cur] = []
        elif cur is not None:
            out[cur].append(t)
    return out


def reply_value(info, p, ev, ri):
    _rt, kind, _count, lo = info.types.reply(p['itf']['fqn'], ev)
    if kind == 'void':
        return -1
    if kind == 'subint':
        return lo + ri
    return ri


def judge_step(info, exp, lines, what):
    ev = exp['ev']
    port = [p for p in info.ports if p['name'] == exp['port']][0]
    calls = [t for t in lines if t['k'] == 'c']
    rets = [t for t in lines if t['k'] == 'r']
    hs = [t for t in lines if t['k'] == 'h']
    rea = exp.get('reaction')
    if rea:
        # the nested event the component raised while handling this one: set apart and judged first
        inner_c = [t for t in calls if t['side'] == 'comp']
        if len(inner_c) != 1:
            raise Fail(f'{what}: the component-side handler never ran its reaction '
                       f'({len(inner_c)} nested calls)', f'{exp["role"]}:arrived-0-times')
        inner_r = [t for t in rets if t['call'] == inner_c[0]['call']]
        rh = [h for h in hs if h['side'] == rea['side']]
        good = [h for h in rh if h['port'] == rea['hport'] and h['ev'] == rea['ev']['name'] and
                h['dir'] == rea['ev']['dir']]
        if len(good) != 1 or len(rh) != 1:
            raise Fail(f'{what}: the event {rea["ev"]["name"]} the component raised while handling it '
                       f'arrived {len(good)} times at {rea["hport"]} (handlers on that side: '
                       f'{[(h["port"], h["ev"]) for h in rh]})',
                       f'nested:arrived-{min(len(good), 2)}-times')
        if good[0]['args'] != inner_c[0]['args'] or len(inner_r) != 1:
            raise Fail(f'{what}: nested event arguments {inner_c[0]["args"]} arrived as '
                       f'{good[0]["args"]}', 'nested:arguments')
        calls = [t for t in calls if t is not inner_c[0]]
        rets = [t for t in rets if t not in inner_r]
        hs = [h for h in hs if h not in rh]
    if len(calls) != 1:
        raise Fail(f'{what}: the driver could not issue the call ({lines[:3]})', 'no-call')
    if len(rets) != 1:
        raise Fail(f'{what}: the call did not return ({len(rets)} return records)', 'no-return')
    mine = [h for h in hs if h['side'] == exp['side'] and h['port'] == exp['hport'] and
            h['ev'] == ev['name'] and h['dir'] == ev['dir']]
    others = [h for h in hs if h not in mine]
    if len(mine) != 1:
        raise Fail(f'{what}: event arrived {len(mine)} times at {exp["side"]} side {exp["hport"]}.'
                   f'{ev["dir"]}.{ev["name"]} (other handlers fired: '
                   f'{[(h["side"], h["port"], h["ev"]) for h in others]})',
                   f'{exp["role"]}:arrived-{min(len(mine), 2)}-times')
    if others:
        raise Fail(f'{what}: other handlers fired as well: '
                   f'{[(h["side"], h["port"], h["dir"], h["ev"]) for h in others]}',
                   f'{exp["role"]}:routed-elsewhere')
    h, c, r = mine[0], calls[0], rets[0]
    if h['args'] != c['args']:
        raise Fail(f'{what}: arguments sent {c["args"]}, arguments received {h["args"]}',
                   f'{exp["role"]}:arguments')
    want_ret = reply_value(info, port, ev, h['ret'])
    if r['ret'] != want_ret:
        raise Fail(f'{what}: handler replied {want_ret}, caller got {r["ret"]}', f'{exp["role"]}:reply')
    if 'forced' in exp and h['ret'] != exp['forced']:
        raise Fail(f'{what}: forced reply not used (harness)', 'harness-forced')
    for i, f in enumerate(ev['formals']):
        want = c['args'][i] if f['dir'] == 'in' else 7000000 + h['n'] * 100 + i
        if r['args'][i] != want:
            raise Fail(f'{what}: {f["dir"]} argument {i} is {r["args"][i]} after the call, expected '
                       f'{want}', f'{exp["role"]}:out-argument')


def check_case(case, workdir=None):
    sm, spec, sem = case['sm'], case['spec'], case['semantics']
    pr = farm.Project(sm, spec, sem, workdir)
    try:
        try:
            pr.generate()
        except Exception as exc:  # pylint: disable=broad-except
            raise Fail(f'valid model/configuration rejected: {type(exc).__name__}: {exc}',
                       f'rejected:{type(exc).__name__}') from None
        info = pr.info
        try:
            exe = pr.build_driver('asan' if case.get('asan') else 'none')
        except farm.BuildError as exc:
            c06.fail_build(exc, 'build: the generated shell does not compile/link')
        steps = plan(info)
        rc, trace, err = pr.run_driver(exe, script_for(info, steps),
                                       'asan' if case.get('asan') else 'none')
        notes = [t.get('what') for t in trace if t.get('k') == 'note']
        if 'final-ok' not in notes:
            raise Fail(f'construction / final construction failed: {[t for t in trace if t.get("k") == "note"][:6]} '
                       f'{err[:400]}', 'setup-failed')
        if rc != 0 or 'end' not in notes:
            raise Fail(f'driver exit status {rc}; stderr: {err[:1500]}', f'crash:{rc}')
        win = windows(trace)
        covered = set()
        per_call = []
        for i, (cmd, exp) in enumerate(steps):
            if exp is None:
                continue
            judge_step(info, exp, win.get(f's{i}', []), f'`{cmd}`')
            covered.add((exp['port'], exp['ev']['name']))
            per_call.append((exp['role'], exp['port'], exp['ev']['name'],
                             bool(exp['ev']['formals']) or exp['ev']['ret'] != ['void']))
        missing = expected_pairs(info) - covered
        if missing:
            raise Fail(f'(port, event) pairs never exercised: {sorted(missing)} (harness plan)',
                       'harness-coverage')
        return per_call
    finally:
        pr.cleanup()


def strata():
    return [
        gen_cfg.model_and_spec(force=['inout_mix']),
        gen_cfg.model_and_spec(want_mc=True, force=['out_many_formals']),
        gen_cfg.model_and_spec(force=['shared_itf', 'many_ports'], want_mixed=True),
        gen_cfg.model_and_spec(force=['global_enc', 'subint_reply', 'bool_reply']),
        gen_cfg.model_and_spec(force=['deep_ns', 'partial_spelling', 'nested_enum']),
        gen_cfg.model_and_spec(want_mc=True, force=['many_ports', 'system_enc']),
        gen_cfg.model_and_spec(want_mc=True, force=['many_provides']),
        gen_cfg.model_and_spec(want_mc=True, force=['shadow_ns']),
        gen_cfg.model_and_spec(want_mc=True, force=['dict_names']),
        gen_cfg.model_and_spec(force=['big'], want_mixed=True),
        gen_cfg.model_and_spec(force=['one_way_itf', 'many_ports'], prov_sem='MTS', want_mixed='MS'),
        gen_cfg.model_and_spec(force=['dict_names', 'many_ports'], want_mixed=True),
        gen_cfg.model_and_spec(want_mc=True, force=['inout_mix', 'out_many_formals']),
        gen_cfg.model_and_spec(force=['ref_extern', 'prefix_ports', 'many_ports'], want_mixed=True),
        gen_cfg.model_and_spec()]


def run(ctx):
    name = 'forwarding'
    ctx.clauses_run.append(name)
    if ctx.replay is not None:
        if ctx.replay.get('clause') == name:
            ctx._run_one(name, lambda c: check_case(c), ctx.replay['case'])  # pylint: disable=protected-access,unnecessary-lambda
        return
    from vf.draw import draw_stratified
    from vf.runner import case_hash, load_regress
    cases = load_regress(ctx.prop, name) + gen_cfg.alternate_histories(
        draw_stratified(strata(), 32 if ctx.quick else 300, ctx.seed), ('edited', 'semantics'))
    if not ctx.quick:
        for i, case in enumerate(cases):
            case['asan'] = i % 2 == 0  # thorough: every second model under ASan+UBSan
    calls = {}

    def check(case, workdir):
        calls[id(case)] = check_case(case, workdir)
    c06.run_cases(ctx, name, cases, check)
    for case in cases:
        mh = case_hash([case['sm']['model'], case['spec']])
        labels = c06.labels(case)
        for role, port, ev, nt in calls.get(id(case)) or []:
            ctx.record([mh, port, ev, role], nt, [role])
        for lab in labels:
            ctx.classes[lab] += 1
    ctx.extra['models'] = len(cases)
