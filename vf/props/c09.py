"""C09 - facility ownership follows the configured origin."""
import itertools

from hypothesis import strategies as st

from vf import gen_cfg
from vf.cxx import farm
from vf.props import c01, c06
from vf.runner import Fail

RULE = ('Hypothesis draws shell models x configurations x origin; per compiled shell the driver is '
        'run once for each of the 16 combinations of {dispatcher, runtime, ServiceA, ServiceB} '
        'present/absent in the user\'s locator (exhaustive), constructing two shell instances and '
        'sending one event through an MTS port if there is one. Oracle: CREATE - constructor throws iff '
        'dispatcher or runtime present; else the component got the shell\'s own locator, which holds '
        'exactly the prototype\'s services plus a dispatcher and a runtime, the prototype map is '
        'identical before/after (keys and addresses), the two shells own different dispatchers, MTS '
        'events are posted to the shell\'s own dispatcher, Locator() exists. IMPORT - throws iff '
        'dispatcher or runtime missing; the component got the user\'s locator object itself, the '
        'dispatcher used is the user\'s, Locator() does not exist (detection idiom, static_assert). '
        'Non-trivial: a combination on a model with >= 1 MTS port; distinct by (model, origin, '
        'combination).')
ASSUMPTIONS = c06.ASSUMPTIONS
COMBOS = list(itertools.product((0, 1), repeat=4))  # pump, runtime, A, B


def parse_services(s):
    return dict(item.split('=') for item in s.split(';') if item) if s not in ('-', '') else {}


def is_pump(k):
    return 'pump' in k


def is_runtime(k):
    return 'runtime' in k


def judge_combo(info, combo, trace, err, rc):
    pu, rt, _a, _b = combo
    what = f'{info.spec["origin"]} locator(pump={pu}, runtime={rt}, A={combo[2]}, B={combo[3]})'
    notes = [t for t in trace if t.get('k') == 'note']
    names = [t['what'] for t in notes]
    if 'end' not in names or rc != 0:
        raise Fail(f'{what}: driver crashed (exit {rc}): {err[:800]}', f'crash:{rc}')
    threw = 'ctor-threw' in names
    if info.create:
        want_throw = bool(pu or rt)
    else:
        want_throw = not (pu and rt)
    if threw != want_throw:
        raise Fail(f'{what}: constructor {"threw" if threw else "did not throw"}: '
                   f'{[t for t in notes if t["what"] == "ctor-threw"][:1]}',
                   f'{info.spec["origin"]}:ctor-{"threw" if threw else "accepted"}')
    if want_throw:
        return
    c1 = [t for t in notes if t['what'] == 'constructed'][0]
    c2 = [t for t in notes if t['what'] == 'constructed2'][0]
    before, after = parse_services(c1['user_services_before']), parse_services(c1['user_services_after'])
    if before != after:
        raise Fail(f'{what}: the user\'s locator was modified: {before} -> {after}',
                   f'{info.spec["origin"]}:user-locator-modified')
    comp = parse_services(c1['comp_services'])
    if info.create:
        if not (c1['own_locator'] and c1['comp_got_own_locator']):
            raise Fail(f'{what}: the component was not constructed with the shell\'s own locator '
                       f'({c1})', 'CREATE:component-locator')
        own = parse_services(c1['own_services'])
        extra = {k: v for k, v in own.items() if k not in before}
        if {k: v for k, v in own.items() if k in before} != before or len(extra) != 2 or \
                not any(is_pump(k) for k in extra) or not any(is_runtime(k) for k in extra):
            raise Fail(f'{what}: own locator {own} is not prototype {before} + dispatcher + runtime',
                       'CREATE:locator-contents')
        if comp != own:
            raise Fail(f'{what}: component saw {comp}, shell locator holds {own}',
                       'CREATE:component-services')
        if c1['pump'] == c2['pump'] or c1['comp_runtime'] == c2['comp_runtime']:
            raise Fail(f'{what}: two shell instances share a dispatcher/runtime', 'CREATE:shared')
        if c1['comp_pump'] != c1['pump'] or c1['pump'] == c1['user_pump']:
            raise Fail(f'{what}: dispatcher identities: {c1}', 'CREATE:pump-identity')
    else:
        if c1['own_locator'] or not c1['comp_got_user_locator']:
            raise Fail(f'{what}: the component did not receive the user\'s locator object ({c1})',
                       'IMPORT:component-locator')
        if c1['pump'] != c1['user_pump'] or c1['comp_pump'] != c1['user_pump']:
            raise Fail(f'{what}: the shell does not use the user\'s dispatcher ({c1})',
                       'IMPORT:pump-identity')
        if comp != before:
            raise Fail(f'{what}: component saw {comp}, user locator holds {before}',
                       'IMPORT:component-services')
    if c1['meta_name'] != 'inst':
        raise Fail(f'{what}: component meta name {c1["meta_name"]!r}', 'meta-name')
    # an MTS event goes through the dispatcher the shell claims to use
    hs = [t for t in trace if t['k'] == 'h']
    cs = [t for t in trace if t['k'] == 'c']
    rs = [t for t in trace if t['k'] == 'r']
    if cs:
        if len(hs) != 1 or not hs[0]['disp'] or not hs[0]['own_pump']:
            raise Fail(f'{what}: MTS event did not run on the expected dispatcher: {hs}',
                       f'{info.spec["origin"]}:mts-dispatcher')
        idle = [t for t in notes if t['what'] == 'idle'][-1]
        if idle['posted'] != cs[0]['posted'] + 1:
            raise Fail(f'{what}: dispatcher counters {cs[0]["posted"]} -> {idle["posted"]}',
                       f'{info.spec["origin"]}:mts-posted')
        del rs


def mts_probe(info):
    for p in info.ports:
        if info.sem[p['name']] != 'MTS' or info.is_mc(p):
            continue
        for ev in p['itf']['elem']['events']:
            if p['dir'] == 'provides' and ev['dir'] == 'in':
                return f'call {p["name"]} {ev["name"]}'
            if p['dir'] == 'requires' and ev['dir'] == 'out':
                return f'raise {p["name"]} {ev["name"]}'
    return None


def check_case(case, workdir=None):
    sm, spec, sem = case['sm'], case['spec'], case['semantics']
    pr = farm.Project(sm, spec, sem, workdir)
    try:
        try:
            pr.generate()
        except Exception as exc:  # pylint: disable=broad-except
            raise Fail(f'valid model/configuration rejected: {type(exc).__name__}: {exc}',
                       f'rejected:{type(exc).__name__}') from None
        info = pr.info
        pr.add_twin()
        try:
            exe = pr.build_driver('asan')
        except farm.BuildError as exc:
            c06.fail_build(exc, 'build: generated shell (Locator() presence is static_asserted)')
        probe = mts_probe(info)
        combos = case.get('combos') or COMBOS
        for combo in combos:
            script = ['locator %d %d %d %d' % tuple(combo), 'construct inst', 'construct2 inst2']
            if probe:
                script += ['bind -'] + (['client A -'] if info.mc else []) + ['final 0', probe, 'idle']
            rc, trace, err = pr.run_driver(exe, script, 'asan')
            if 'AddressSanitizer' in err or 'runtime error:' in err:
                raise Fail(f'sanitizer report with locator combination {combo}: {err[:1500]}',
                           'sanitizer')
            judge_combo(info, combo, trace, err, rc)
        return [(spec['origin'], combo, 'MTS' in sem.values()) for combo in combos]
    finally:
        pr.cleanup()


def with_origin(origin):
    def fix(case):
        case = dict(case)
        case['spec'] = dict(case['spec'], origin=origin)
        return case
    return fix


def strata():
    return [gen_cfg.model_and_spec(force=['many_ports'], want_mixed=True),
                     gen_cfg.model_and_spec(want_mc=True),
                     gen_cfg.model_and_spec(force=['injected', 'many_ports']),
                     gen_cfg.model_and_spec(force=['global_enc']),
                     gen_cfg.model_and_spec(force=['no_ports']),
                     gen_cfg.model_and_spec(force=['api_names', 'deep_ns']).map(with_origin('CREATE')),
                     gen_cfg.model_and_spec(force=['api_names'], want_mc=True).map(with_origin('IMPORT')),
                     gen_cfg.model_and_spec()]


def run(ctx):
    name = 'facilities'
    ctx.clauses_run.append(name)
    if ctx.replay is not None:
        if ctx.replay.get('clause') == name:
            ctx._run_one(name, lambda c: check_case(c), ctx.replay['case'])  # pylint: disable=protected-access,unnecessary-lambda
        return
    from vf.draw import draw_stratified
    from vf.runner import case_hash, load_regress
    cases = load_regress(ctx.prop, name) + gen_cfg.alternate_histories(
        draw_stratified(strata(), 16 if ctx.quick else 150, ctx.seed), ('origin', 'plain'))
    done = {}

    def check(case, workdir):
        done[id(case)] = check_case(case, workdir)
    c06.run_cases(ctx, name, cases, check)
    for case in cases:
        mh = case_hash([case['sm']['model'], case['spec']])
        for origin, combo, nt in done.get(id(case)) or []:
            ctx.record([mh, origin, list(combo)], nt, [origin])
        for lab in c06.labels(case):
            ctx.classes[lab] += 1
    ctx.exhaustive = True
    ctx.extra['exhaustive_part'] = 'the 16 presence/absence combinations of {dispatcher, runtime, ' \
                                   'ServiceA, ServiceB} per compiled shell'
    ctx.extra['models'] = len(cases)

