"""C14 - name lookup returns exactly the declarations on the scope chain."""
import itertools

from hypothesis import strategies as st

from vf import gen_doc
from vf.model import declarations, lookup, resolution_order
from vf.runner import Fail

RULE = ('Exhaustive part: alphabet {a,b,c}, all 39 FQNs of depth <= 3 as declaration universe (kinds '
        'rotated over the 7 searchable containers, plus imports/file names that must never be '
        'returned); every searched name (39) x every calling scope (40, incl. global) against (i) the '
        'full universe, (ii) the universe with every FQN declared twice, (iii) each single-declaration '
        'file, (iv, thorough) each pair of declarations; the same for alphabet {a,ba,ab} (identifiers '
        'that are character-wise affixes of each other) incl. every suffix search (find_any). Sampled part (Hypothesis): parser-built '
        'contents of random models (multi-id names, interface-nested types), random names/scopes; '
        'resolution order; suffix search; identifier validity and notation round trips for arbitrary '
        'strings. Oracle: set-comprehension specification (vf/model.py: lookup, resolution_order). '
        'Non-trivial: a lookup with >= 2 candidates on the chain or a searched name of >= 2 ids; '
        'distinct by case hash.')
ASSUMPTIONS = ['identifier validity is judged by an own scanner for [A-Za-z_][A-Za-z0-9_]*',
               'find_any is only specified for >= 1 identifier']
SHARDS = {'quick': 8, 'thorough': 16}

ALPHA = ['a', 'b', 'c']
UNIVERSE = [list(t) for n in (1, 2, 3) for t in itertools.product(ALPHA, repeat=n)]  # 39 FQNs
SCOPES = [[]] + UNIVERSE  # 40 calling scopes
KINDS = ['component', 'enum', 'extern', 'foreign', 'interface', 'subint', 'system']


def valid_ident(s):
    if not isinstance(s, str) or s == '':
        return False
    first = 'abcdefghijklmnopqrstuvwxyzABCDEFGHIJKLMNOPQRSTUVWXYZ_'
    if s[0] not in first:
        return False
    return all(ch in first + '0123456789' for ch in s[1:])


def assert_valid_ids(nsids, what):
    from dznpy.scoping import NamespaceIds
    if not isinstance(nsids, NamespaceIds):
        raise Fail(f'{what}: not a NamespaceIds: {nsids!r}', 'not-nsids')
    for it in nsids.items:
        if not valid_ident(it):
            raise Fail(f'{what}: NamespaceIds holds an invalid identifier {it!r}', 'invalid-id')


_FC_CACHE = {}


def build_fc(decls):
    """FileContents built from the public dataclasses: decls = [(kind, fqn list), ...]."""
    from dznpy import ast
    from dznpy.scoping import NamespaceIds, NamespaceTree
    key = repr(decls)
    if key in _FC_CACHE:
        return _FC_CACHE[key]
    fc = ast.FileContents()
    add_decls(fc, decls)
    if len(_FC_CACHE) > 2000:
        _FC_CACHE.clear()
    _FC_CACHE[key] = fc
    return fc


def add_decls(fc, decls):
    """Append declarations to an existing FileContents (its public list fields)."""
    from dznpy import ast
    from dznpy.scoping import NamespaceIds, NamespaceTree
    for kind, fqn in decls:
        tree = NamespaceTree()
        for part in fqn[:-1]:
            tree = NamespaceTree(tree, NamespaceIds([part]))
        nm = ast.ScopeName(NamespaceIds([fqn[-1]]))
        f = NamespaceIds(list(fqn))
        if kind == 'component':
            fc.components.append(ast.Component(f, tree, nm, ast.Ports()))
        elif kind == 'foreign':
            fc.foreigns.append(ast.Foreign(f, tree, nm, ast.Ports()))
        elif kind == 'system':
            fc.systems.append(ast.System(f, tree, nm, ast.Ports(), ast.Instances(), ast.Bindings()))
        elif kind == 'enum':
            fc.enums.append(ast.Enum(f, tree, nm, ast.Fields(['x'])))
        elif kind == 'subint':
            fc.subints.append(ast.SubInt(f, tree, nm, ast.Range(0, 1)))
        elif kind == 'extern':
            fc.externs.append(ast.Extern(f, tree, nm, ast.Data('int')))
        elif kind == 'interface':
            fc.interfaces.append(ast.Interface(f, tree, NamespaceTree(tree, NamespaceIds([fqn[-1]])),
                                               nm, ast.Types(), ast.Events()))
        # decoys that must never be returned
        fc.imports.append(ast.Import('.'.join(fqn)))
        fc.filenames.append(ast.Filename(fqn[-1]))


def kind_of(obj):
    return type(obj).__name__.lower()


def check_lookup_universe(case):
    from dznpy.ast_view import find_fqn
    from dznpy.scoping import NamespaceIds
    decls = [(k, list(f)) for k, f in case['decls']]
    fc = build_fc(decls)
    name, scope = case['name'], case['scope']
    scope_arg = NamespaceIds(list(scope)) if (scope or not case.get('none_scope')) else None
    res = find_fqn(fc, NamespaceIds(list(name)), scope_arg)
    chain = {tuple(c) for c in resolution_order(name, scope)}
    want = sorted((k, tuple(f)) for k, f in decls if tuple(f) in chain)
    got = sorted((kind_of(o), tuple(o.fqn.items)) for o in res.items)
    if got != want:
        raise Fail(f'find_fqn({name}, from {scope}) returned {got}, chain has {want}',
                   'lookup-set')
    if scope_arg is not None and scope_arg.items != list(scope):
        raise Fail('find_fqn modified the calling scope argument', 'mutates-scope')


def check_lookup_growing(case):
    """Look-ups answer for the declarations the FileContents holds *at the time of the call*: the
    same object is looked at, extended through its public list fields (as when a second document is
    merged in), looked at again, reduced, looked at again."""
    from dznpy import ast
    from dznpy.ast_view import find_any, find_fqn
    from dznpy.scoping import NamespaceIds
    fc = ast.FileContents()
    have = []

    def look(stage):
        for name, scope in case['queries']:
            res = find_fqn(fc, NamespaceIds(list(name)), NamespaceIds(list(scope)))
            chain = {tuple(c) for c in resolution_order(name, scope)}
            want = sorted((k, tuple(f)) for k, f in have if tuple(f) in chain)
            got = sorted((kind_of(o), tuple(o.fqn.items)) for o in res.items)
            if got != want:
                raise Fail(f'{stage}: find_fqn({name}, from {scope}) returned {got}, the contents '
                           f'hold {want} on the chain', 'lookup-after-change')
            tail = list(name)
            res = find_any(fc, NamespaceIds(tail))
            want = sorted((k, tuple(f)) for k, f in have if list(f[-len(tail):]) == tail)
            got = sorted((kind_of(o), tuple(o.fqn.items)) for o in res.items)
            if got != want:
                raise Fail(f'{stage}: find_any({tail}) returned {got}, the contents hold {want}',
                           'suffix-after-change')
    for i, step in enumerate(case['steps']):
        if step[0] == 'add':
            decls = [(k, list(f)) for k, f in step[1]]
            add_decls(fc, decls)
            have += decls
        else:  # drop the n-th declaration of its kind list
            if not have:
                continue
            k, f = have.pop(step[1] % len(have))
            lst = getattr(fc, {'component': 'components', 'foreign': 'foreigns', 'system': 'systems',
                               'enum': 'enums', 'subint': 'subints', 'extern': 'externs',
                               'interface': 'interfaces'}[k])
            for j, o in enumerate(lst):
                if list(o.fqn.items) == list(f):
                    del lst[j]
                    break
        look(f'after step {i + 1} ({step[0]})')


_SMALL = [list(t) for n in (1, 2, 3) for t in itertools.product(['a', 'b'], repeat=n)]
growing_case = st.fixed_dictionaries({
    'steps': st.lists(st.one_of(
        st.tuples(st.just('add'), st.lists(st.tuples(st.sampled_from(KINDS), st.sampled_from(_SMALL)),
                                           min_size=1, max_size=4)),
        st.tuples(st.just('drop'), st.integers(0, 7))), min_size=2, max_size=5),
    'queries': st.lists(st.tuples(st.sampled_from(_SMALL[:6]), st.sampled_from([[]] + _SMALL)),
                        min_size=1, max_size=4)})


def universe_cases(ctx):
    full = [(KINDS[i % 7], f) for i, f in enumerate(UNIVERSE)]
    twice = full + [(KINDS[(i + 3) % 7], f) for i, f in enumerate(UNIVERSE)]
    sets = [full, twice] + [[d] for d in full]
    if not ctx.quick:
        sets += [[d1, d2] for d1, d2 in itertools.combinations(full, 2)]
    for decls in sets:
        for scope in SCOPES:
            for name in UNIVERSE:
                yield {'decls': decls, 'name': name, 'scope': scope,
                       'none_scope': len(decls) == 1}


# a second alphabet whose identifiers are character-wise suffixes / prefixes of one another, so
# that any comparison on joined strings instead of identifier lists shows
ALPHA2 = ['a', 'ba', 'ab']
UNIVERSE2 = [list(t) for n in (1, 2, 3) for t in itertools.product(ALPHA2, repeat=n)]


def affix_cases():
    full = [(KINDS[i % 7], f) for i, f in enumerate(UNIVERSE2)]
    twice = full + [(KINDS[(i + 3) % 7], f) for i, f in enumerate(UNIVERSE2)]
    for decls in (full, twice):
        for name in UNIVERSE2:
            yield {'decls': decls, 'tail': name}
            for scope in [[]] + UNIVERSE2:
                yield {'decls': decls, 'name': name, 'scope': scope}


def check_affix(case):
    if 'name' in case:
        return check_lookup_universe(case)
    from dznpy.ast_view import find_any
    from dznpy.scoping import NamespaceIds
    decls = [(k, list(f)) for k, f in case['decls']]
    fc = build_fc(decls)
    tail = list(case['tail'])
    arg = NamespaceIds(list(tail))
    res = find_any(fc, arg)
    want = sorted((k, tuple(f)) for k, f in decls if f[-len(tail):] == tail)
    got = sorted((kind_of(o), tuple(o.fqn.items)) for o in res.items)
    if got != want:
        extra = sorted(set(got) - set(want))
        missing = sorted(set(want) - set(got))
        raise Fail(f'find_any({tail}) extra {extra[:4]} missing {missing[:4]}', 'find_any')
    if arg.items != tail:
        raise Fail('find_any modified the searched name', 'find_any-mutates')
    return None


def nt_universe(case):
    chain = {tuple(c) for c in resolution_order(case['name'], case['scope'])}
    return len(case['name']) >= 2 or sum(1 for _, f in case['decls'] if tuple(f) in chain) >= 2


# ---- sampled: contents built through the parser

def check_lookup_parsed(case):
    import orjson
    from dznpy.ast_view import find_any, find_fqn
    from dznpy.scoping import NamespaceIds
    from vf.props.c05 import parse
    from vf.to_json import to_json
    model = case['model']
    fc = parse(orjson.dumps(to_json(model)))
    decls = declarations(model)
    name, scope = case['name'], case['scope']
    res = find_fqn(fc, NamespaceIds(list(name)), NamespaceIds(list(scope)))
    want = sorted((d['kind'], d['fqn']) for d in lookup(decls, name, scope))
    got = sorted((kind_of(o), tuple(o.fqn.items)) for o in res.items)
    if got != want:
        raise Fail(f'find_fqn({name}, from {scope}) returned {got}, want {want}', 'lookup-set')
    all_objs = [o for c in (fc.components, fc.enums, fc.externs, fc.foreigns, fc.interfaces,
                            fc.subints, fc.systems) for o in c]
    for o in res.items:
        if sum(1 for x in all_objs if x is o) != 1:
            raise Fail('find_fqn returned an object that is not (exactly once) in the contents',
                       'lookup-identity')
    if len({id(o) for o in res.items}) != len(res.items):
        raise Fail('find_fqn returned a declaration twice', 'lookup-dup')
    # suffix search
    tail = case['tail']
    res = find_any(fc, NamespaceIds(list(tail)))
    n = len(tail)
    want = sorted((d['kind'], d['fqn']) for d in decls if list(d['fqn'][-n:]) == list(tail))
    got = sorted((kind_of(o), tuple(o.fqn.items)) for o in res.items)
    if got != want:
        raise Fail(f'find_any({tail}) returned {got}, want {want}', 'find_any')


@st.composite
def parsed_case(draw):
    model = draw(gen_doc.doc_model(max_depth=4))
    decls = declarations(model)
    fqns = [list(d['fqn']) for d in decls] or [['a']]
    target = draw(st.sampled_from(fqns))
    k = draw(st.integers(0, len(target) - 1))
    name = target[k:] if draw(st.integers(0, 4)) else draw(gen_doc.ids(1, 3))
    other = draw(st.sampled_from(fqns))
    scope = draw(st.sampled_from([target[:k], other[:-1], other, target,
                                  target[:k] + draw(gen_doc.ids(0, 2))]))
    t2 = draw(st.sampled_from(fqns))
    tail = t2[draw(st.integers(0, len(t2) - 1)):] if draw(st.integers(0, 3)) else \
        draw(gen_doc.ids(1, 2))
    return {'model': model, 'name': name, 'scope': scope, 'tail': tail}


def nt_parsed(case):
    return len(case['name']) >= 2 or \
        len(lookup(declarations(case['model']), case['name'], case['scope'])) >= 2


# ---- resolution order

def check_resolution_order(case):
    from dznpy.scoping import NamespaceIds, scope_resolution_order
    name, scope = case['name'], case['scope']
    s_arg = NamespaceIds(list(scope)) if scope is not None else None
    n_arg = NamespaceIds(list(name))
    res = scope_resolution_order(n_arg, s_arg)
    want = [list(c) for c in resolution_order(name, scope or [])]
    got = [list(r.items) for r in res]
    if got != want:
        raise Fail(f'scope_resolution_order({name}, {scope}) = {got}, want {want}', 'order')
    for r in res:
        assert_valid_ids(r, 'scope_resolution_order item')
    if n_arg.items != list(name) or (s_arg is not None and s_arg.items != list(scope)):
        raise Fail('scope_resolution_order modified an argument', 'order-mutates')
    if len({id(r.items) for r in res}) != len(res):
        raise Fail('scope_resolution_order returns aliased items', 'order-alias')


# ---- identifiers and notations

CRAFTED = ['a\n', 'a.b', '', '1a', 'a::b', 'a..b', '.a', 'a.', '::a', 'a::', 'a:b', 'a b', ' a', 'a ',
           'a.b::c', 'a::b.c', '_', '__', 'a1', 'A_b9', 'é', 'á', 'a\x00', 'a-b', '.', '::',
           'a\r', 'a ', '٣', 'a٣', 'ａ', 'My.Project', 'My::Project::X', 'a.1']
candidate = st.one_of(st.sampled_from(CRAFTED), st.text(max_size=6),
                      st.lists(st.sampled_from(list('abZ_09.: \n')), max_size=6).map(''.join))
candidate_value = st.one_of(
    candidate, st.lists(candidate, max_size=4),
    st.lists(st.sampled_from(['a', 'B_1', '_x', 'Zz9', 'My']), max_size=4),
    st.sampled_from([None, 1, 3.14, ['a', 1], [['a']], True, {'$py': "('a',)"}, {'$py': "{'a'}"},
                     {'$py': "b'a'"}]))


def check_identifiers(case):
    from dznpy.cpp_gen import fqn_t
    from dznpy.scoping import NamespaceIds, NamespaceIdsTypeError, namespaceids_t
    v = case['value']
    if isinstance(v, dict) and '$py' in v:
        v = eval(v['$py'])  # pylint: disable=eval-used
    for ctor, label in ((namespaceids_t, 'namespaceids_t'),
                        (lambda x: NamespaceIds(items=x), 'NamespaceIds')):
        try:
            ns = ctor(list(v) if isinstance(v, list) else v)
        except NamespaceIdsTypeError:
            ns = None
        except TypeError as exc:
            raise Fail(f'{label}({v!r}) raised {type(exc).__name__} instead of the identifier '
                       f'validation error', 'wrong-error') from None
        if ns is not None:
            assert_valid_ids(ns, f'{label}({v!r})')
    # lossless notations for valid identifier lists
    if isinstance(v, list) and v and all(valid_ident(x) for x in v):
        a = namespaceids_t(list(v))
        b = namespaceids_t('.'.join(v))
        c = namespaceids_t('::'.join(v))
        if not (a.items == b.items == c.items == v):
            raise Fail(f'notations disagree for {v}: {a.items} {b.items} {c.items}', 'notation')
        if str(a) != '.'.join(v) or str(fqn_t(a)) != '::'.join(v) or \
                str(fqn_t(a, True)) != '::' + '::'.join(v):
            raise Fail(f'string forms of {v}: {str(a)!r} {str(fqn_t(a))!r}', 'notation-str')
        if namespaceids_t(a) is not a and namespaceids_t(a).items != v:
            raise Fail('namespaceids_t(NamespaceIds) does not pass through', 'passthrough')
    if isinstance(v, str) and v and not any(ch in v for ch in '.:') and valid_ident(v):
        if namespaceids_t(v).items != [v]:
            raise Fail(f'single identifier {v!r}', 'notation')


def check_fresh(case):
    """Converted values are the caller's own: extending one in place (+=, .items) does not show in
    what the same conversion, or any other helper, returns next."""
    from dznpy.cpp_gen import fqn_t
    from dznpy.scoping import (NamespaceIds, NamespaceTree, namespaceids_t, ns_ids_t,
                               scope_resolution_order, sum_namespaceids_items)
    ids = list(case['ids'])
    forms = [list(ids), '.'.join(ids), '::'.join(ids)] if len(ids) != 1 else [list(ids), ids[0]]
    if not ids:
        forms = [[], '']
    makers = [('namespaceids_t', namespaceids_t), ('ns_ids_t', ns_ids_t),
              ('fqn_t(..).ns_ids', lambda v: fqn_t(v).ns_ids),
              ('sum_namespaceids_items', lambda v: sum_namespaceids_items([namespaceids_t(v)])),
              ('scope_resolution_order[-1]',
               lambda v: scope_resolution_order(namespaceids_t(v), NamespaceIds(['s']))[-1]),
              ('NamespaceTree().fqn_member_name', lambda v: NamespaceTree().fqn_member_name(
                  namespaceids_t(v))),
              ('NamespaceTree().fqn + x', lambda v: NamespaceTree().fqn + namespaceids_t(v))]
    for form in forms:
        for label, make in makers:
            src = list(form) if isinstance(form, list) else form
            first = make(src)
            if first.items != ids:
                raise Fail(f'{label}({form!r}) gives {first.items}, want {ids}', 'fresh-value')
            if case['how'] == 'iadd':
                first += NamespaceIds(['polluted'])
            else:
                first.items.append('polluted')
            again = make(list(form) if isinstance(form, list) else form)
            if again.items != ids:
                raise Fail(f'{label}({form!r}) gives {again.items} after an earlier result of the '
                           f'same call was extended in place (want {ids})', 'shared-result')
    if NamespaceTree().fqn.items != [] or namespaceids_t('').items != [] or \
            namespaceids_t([]).items != []:
        raise Fail('the empty name is no longer empty after results were extended in place',
                   'shared-result')


def check_ops(case):
    from dznpy.scoping import (NamespaceIds, NamespaceTree, namespaceids_t, sum_namespaceids_items)
    parts = [list(p) for p in case['parts']]
    objs = [NamespaceIds(list(p)) for p in parts]
    flat = [x for p in parts for x in p]
    s = sum_namespaceids_items(list(objs))
    assert_valid_ids(s, 'sum_namespaceids_items')
    if s.items != flat:
        raise Fail(f'sum {s.items} != {flat}', 'sum')
    if [o.items for o in objs] != parts:
        raise Fail('sum_namespaceids_items modified its items', 'sum-mutates')
    if len(objs) >= 2:
        a, b = objs[0], objs[1]
        c = a + b
        assert_valid_ids(c, '+')
        if c.items != parts[0] + parts[1] or a.items != parts[0] or b.items != parts[1]:
            raise Fail(f'+ gives {c.items}, operands now {a.items} {b.items}', 'add')
        a2 = NamespaceIds(list(parts[0]))
        keep = a2
        a2 += b
        assert_valid_ids(a2, '+=')
        if a2.items != parts[0] + parts[1] or b.items != parts[1] or keep is not a2:
            raise Fail(f'+= gives {a2.items}', 'iadd')
    # a namespace tree along the parts
    tree = NamespaceTree()
    acc = []
    for p in parts:
        if not p:
            continue
        tree = NamespaceTree(tree, NamespaceIds(list(p)))
        acc += p
        f = tree.fqn
        assert_valid_ids(f, 'NamespaceTree.fqn')
        if f.items != acc:
            raise Fail(f'NamespaceTree.fqn {f.items} != {acc}', 'tree-fqn')
        m = tree.fqn_member_name(namespaceids_t(['m', 'n']))
        if m.items != acc + ['m', 'n']:
            raise Fail(f'fqn_member_name {m.items}', 'tree-member')
        if str(tree) != '.'.join(acc):
            raise Fail(f'str(tree) {str(tree)!r}', 'tree-str')
    if NamespaceTree().fqn.items != [] or \
            NamespaceTree().fqn_member_name(namespaceids_t('x')).items != ['x']:
        raise Fail('root namespace tree', 'tree-root')


def run(ctx):
    ctx.enumerate('lookup_exhaustive', universe_cases(ctx), check_lookup_universe,
                  nontrivial=nt_universe,
                  labels=lambda c: [f'ndecls={min(len(c["decls"]), 3)}+'])
    ctx.exhaustive = True
    ctx.extra['exhaustive_part'] = ('alphabet {a,b,c}, depth <= 3: 39 names x 40 scopes x '
                                    + ('(full, doubled, 39 singles)' if ctx.quick else
                                       '(full, doubled, 39 singles, 741 pairs)'))
    ctx.enumerate('affix_exhaustive', affix_cases(), check_affix,
                  nontrivial=lambda c: 'tail' in c or nt_universe(c),
                  labels=lambda c: ['find_any' if 'tail' in c else 'find_fqn'])
    n = ctx.n(1200, 60000)
    ctx.clause('lookup_parsed', parsed_case(), check_lookup_parsed, n, nontrivial=nt_parsed,
               labels=lambda c: ['parsed', f'name-ids={len(c["name"])}'])
    ctx.clause('lookup_growing', growing_case, check_lookup_growing, ctx.n(600, 30000),
               nontrivial=lambda c: sum(1 for s in c['steps'] if s[0] == 'add') >= 2,
               labels=lambda c: ['growing', 'with-drop' if any(s[0] == 'drop' for s in c['steps'])
                                 else 'add-only'])
    idl = st.lists(st.sampled_from(['a', 'b', 'c', 'My', 'x_1', '_']), max_size=5)
    ctx.clause('resolution_order', st.fixed_dictionaries({
        'name': idl, 'scope': st.one_of(st.none(), idl)}), check_resolution_order,
        ctx.n(1000, 50000), nontrivial=lambda c: len(c['name']) >= 2 and bool(c['scope']),
        labels=lambda c: ['order'])
    ctx.clause('identifiers', st.fixed_dictionaries({'value': candidate_value}), check_identifiers,
               ctx.n(3000, 300000),
               nontrivial=lambda c: isinstance(c['value'], (str, list)) and len(c['value']) >= 2,
               labels=lambda c: ['ident', type(c['value']).__name__])
    ctx.clause('fresh_values', st.fixed_dictionaries({
        'ids': st.lists(st.sampled_from(['a', 'b', 'My', 'x_1', 'Dzn']), max_size=3),
        'how': st.sampled_from(['iadd', 'append'])}), check_fresh, ctx.n(400, 20000),
        nontrivial=lambda c: True, labels=lambda c: ['fresh', f'ids={len(c["ids"])}'])
    ctx.clause('ops', st.fixed_dictionaries({'parts': st.lists(idl, max_size=4)}), check_ops,
               ctx.n(1000, 50000), nontrivial=lambda c: len(c['parts']) >= 2,
               labels=lambda c: ['ops'])
