"""C05 - parsing preserves every declaration of the Dezyne JSON AST with correct names."""
import contextlib
import io

import orjson
from hypothesis import strategies as st

from vf import gen_doc
from vf.model import expected_file_contents
from vf.runner import Fail
from vf.to_json import to_json
from vf.view import first_difference, view

RULE = ('Hypothesis: parser-level models (namespaces nested to depth 6, re-opened and multi-id '
        'namespaces, all declaration kinds in any order, unknown classes / non-dict siblings, noise '
        'keys) serialised by an independent serializer; oracle: view(DznJsonAst(json).process()) == '
        'reference contents derived from the model; every third document goes through one long-lived parser '
        'instance (load_file + process). Non-trivial: namespace depth >= 2 and >= 5 '
        'declarations and one of {re-opened ns, multi-id ns, unknown sibling, nested type}; '
        'distinct by hash of (model, noise).')
ASSUMPTIONS = ['JSON shape of `dzn parse` as documented by test/unit_tests/testdata_json_ast.py',
               'identifiers are valid Dezyne identifiers; imports/file-names may occur anywhere']
SHARDS = {'thorough': 16}


def parse(doc_bytes):
    from dznpy.json_ast import DznJsonAst
    with contextlib.redirect_stdout(io.StringIO()):
        return DznJsonAst(doc_bytes).process()


_LIVE = {'parser': None, 'prev': None, 'n': 0, 'dir': None}


def parse_via_live_instance(data, case):
    """Every third document goes through ONE long-lived parser instance (load_file + process), as a
    tool that converts many files would do it; by C16 the result is that of a fresh parser.  The
    document parsed before is remembered, so that a failure can be replayed with its history."""
    import os
    import tempfile
    from dznpy.json_ast import DznJsonAst
    if _LIVE['dir'] is None:
        _LIVE['dir'] = tempfile.mkdtemp(prefix='vf_c05_')
    if _LIVE['parser'] is None:
        _LIVE['parser'] = DznJsonAst()
    path = os.path.join(_LIVE['dir'], 'doc.json')
    with open(path, 'wb') as fh:
        fh.write(data)
    case['_prev'] = _LIVE['prev']
    _LIVE['prev'] = {'model': case['model'], 'noise': case.get('noise')}
    with contextlib.redirect_stdout(io.StringIO()):
        return _LIVE['parser'].load_file(path).process()


def check_parse(case):
    doc = to_json(case['model'], gen_doc.noise_fn(case.get('noise') or {}))
    data = orjson.dumps(doc)
    if case.get('history_prev'):
        # replay of a failure seen on the long-lived instance: a fresh one, the earlier document first
        _LIVE['parser'], _LIVE['prev'] = None, None
        prev = case['history_prev']
        try:
            parse_via_live_instance(orjson.dumps(to_json(prev['model'], gen_doc.noise_fn(
                prev.get('noise') or {}))), dict(prev))
        except Exception:  # pylint: disable=broad-except
            pass
        fc = parse_via_live_instance(data, case)
    else:
        _LIVE['n'] += 1
        if _LIVE['n'] % 3 == 0:
            try:
                fc = parse_via_live_instance(data, case)
            except Exception:
                _LIVE['parser'] = None  # whatever it was, the next document gets a fresh instance
                raise
        else:
            fc = parse(data)
    prev = case.pop('_prev', None)
    got = view(fc)
    want = expected_file_contents(case['model'])
    diff = first_difference(want, got)
    if diff:
        if prev is not None and not case.get('history_prev'):
            case['history_prev'] = prev
            _LIVE['parser'] = None
        raise Fail(f'parsed contents differ from the declared ones (want vs got): {diff}'
                   + (' [long-lived parser instance, another document loaded before]'
                      if case.get('history_prev') else ''),
                   sig='contents:' + diff.split(':')[0].split('[')[0])


def nontrivial(case):
    s = gen_doc.model_stats(case['model'])
    return s['depth'] >= 2 and s['decls'] >= 5 and (s['reopened'] or s['multi_id_ns'] or
                                                    s['unknown'] or s['nested_type'])


def labels(case):
    s = gen_doc.model_stats(case['model'])
    out = [f'depth={min(s["depth"], 6)}', f'decls={min(s["decls"] // 5 * 5, 30)}+']
    out += [k for k in ('reopened', 'multi_id_ns', 'unknown', 'nested_type', 'name_reuse') if s[k]]
    if case.get('noise'):
        out.append('noise')
    return out


def run(ctx):
    strat = st.fixed_dictionaries({'model': gen_doc.doc_model(), 'noise': gen_doc.noise()})
    ctx.clause('parse_equals_reference', strat, check_parse, ctx.n(1000, 200000),
               nontrivial=nontrivial, labels=labels)
