"""C07 - names in generated code denote the declaration Dezyne's scoping rules select."""
import copy
import re

from hypothesis import strategies as st

from vf import cfgspec, gen_cfg, gen_shell
from vf.model import declarations, lookup, resolution_order
from vf.props import c13
from vf.runner import Fail

RULE = ('Hypothesis: collision-heavy shell models (the same simple names for interfaces / externs / '
        'enums in sibling, nested, enclosing and global namespaces; references spelled simple, '
        'partially and fully qualified from every referring scope) x valid configurations. Oracle '
        '(reference lookup of vf/model.py): (a) the accessor return types and the rerouting lambda '
        'parameter types extracted from the generated text equal ::FQN of the unique interface / the '
        'C++ value of the unique extern on the scope chain, the granting reply is ::FQN::field of '
        'the unique enum; (b) metamorphic: adding same-named declarations in namespaces that are not '
        'on the chain leaves the generated shell byte-identical; (c) a reference with zero / several '
        '/ wrong-kind declarations on its chain makes Builder.build raise (references the shell '
        'uses). Non-trivial: a reference whose simple name is declared >= 2 times in the model; '
        'distinct by (model, spec) hash. A compiled sample (every declaration a distinct C++ type) '
        'is part of the C++ farm clause when available.')
ASSUMPTIONS = ['distinct extern declarations carry distinct C++ values, so the chosen declaration is '
               'visible in the generated text', 'reference semantics: vf/model.py lookup()']
SHARDS = {'quick': 8, 'thorough': 16}


from collections import Counter  # noqa: E402

INCONCLUSIVE = Counter()


def squash(text):
    """Text without any whitespace (layout tolerant comparison)."""
    return re.sub(r'\s+', '', text)


def cap(n):
    return n[0].upper() + n[1:]


def split_params(text):
    text = text.strip()
    return [re.sub(r'\s+', ' ', p.strip()) for p in text.split(',')] if text else []


def expected_params(sm, itf, ev, by_value_all=False):
    decls = declarations(sm['model'])
    out = []
    for f in ev['formals']:
        found = lookup(decls, f['type'], itf['fqn'])
        ext = found[0]['elem']['value']
        ref = '' if (f['dir'] == 'in' or by_value_all) else '&'
        out.append(f'{ext}{ref} {f["name"]}')
    return out


def check_uses_right_declaration(case):
    sm, spec, sem = case['sm'], case['spec'], case['semantics']
    kind, res = cfgspec.outcome(spec, model=sm['model'])
    if kind == 'err':
        raise Fail(f'valid model/configuration rejected: {type(res).__name__}: {res}',
                   f'rejected:{type(res).__name__}')
    files = {fn: c for fn, c, _ in res}
    hdr = [c for fn, c in files.items() if fn.endswith(spec['suffix'] + '.hh')][0]
    src = [c for fn, c in files.items() if fn.endswith(spec['suffix'] + '.cc')][0]
    sfns = '::' + '::'.join(list(spec['prefix'] or []) + ['Dzn'])
    mc = spec.get('mc')
    for p in gen_shell.port_table(sm):
        if p['injected']:
            continue
        itf = p['itf']
        fq = '::' + '::'.join(itf['fqn'])
        wrap = 'Sts' if sem[p['name']] == 'STS' else 'Mts'
        is_mc = bool(mc) and mc['port'] == p['name']
        if is_mc:
            decl = f'{sfns}::Mts<{fq}> ProvidesMultiClient{cap(p["name"])}(const {sfns}::ClientIdentifier& identifier);'
        else:
            decl = f'{sfns}::{wrap}<{fq}> {cap(p["dir"])}{cap(p["name"])}();'
        acc_name = f'ProvidesMultiClient{cap(p["name"])}' if is_mc else f'{cap(p["dir"])}{cap(p["name"])}'
        found_decl = [squash(l) for l in hdr.split('\n')
                      if re.search(r'\b' + re.escape(acc_name) + r'\s*\(', l) and '<' in l]
        if not found_decl:
            INCONCLUSIVE['accessor-not-found-in-text'] += 1
        elif squash(decl) not in found_decl:
            raise Fail(f'port {p["name"]}: accessor declared as {found_decl}, reference says '
                       f'`{decl}` (interface {fq})', 'accessor-type')
        if sem[p['name']] != 'MTS':
            continue
        member = ('m_pp' if p['dir'] == 'provides' else 'm_rp') + cap(p['name'])
        for ev in itf['elem']['events']:
            if p['dir'] == 'provides' and ev['dir'] == 'in':
                target = f'{member}{"()" if is_mc else ""}.in.{ev["name"]}'
                want = expected_params(sm, itf, ev)
            elif p['dir'] == 'requires' and ev['dir'] == 'out':
                target = f'{member}.out.{ev["name"]}'
                want = expected_params(sm, itf, ev, by_value_all=True)
            elif is_mc and ev['dir'] == 'out':
                target = f'{member}().out.{ev["name"]}'
                want = expected_params(sm, itf, ev, by_value_all=True)
            else:
                continue
            m = re.search(r'^\s*' + re.escape(target) + r'\s*=\s*\[[^\]]*\]\s*(?:\(([^)]*)\))?\s*(?:->[^{]*)?\{',
                          src, re.M)
            if not m:
                # the generated text is laid out differently: no verdict from the text (the compiled
                # clause decides through C++ type checking)
                INCONCLUSIVE['lambda-not-found-in-text'] += 1
                continue
            got = split_params(m.group(1) or '')
            if got != want:
                raise Fail(f'{target}: lambda parameters {got}, reference says {want}',
                           'lambda-param-type')
        if is_mc:
            claim = [e for e in itf['elem']['events'] if e['name'] == mc['claim']][0]
            enum = lookup(declarations(sm['model']), claim['ret'], itf['fqn'])[0]
            # layout tolerant: `if (<var> == <qualified value>)` [`{`] `<member>.Select(identifier);`
            want = f'::{"::".join(enum["fqn"])}::{mc["grant"][0]}'
            flat = squash(src)
            found = re.findall(r'if\(\w+==((?:::)?[A-Za-z_][\w:]*)\)\{?' +
                               re.escape(squash(f'{member}.Select(identifier);')), flat)
            if not found:
                INCONCLUSIVE['claim-comparison-not-found-in-text'] += 1
            elif any(f != want for f in found):
                raise Fail(f'granting reply is compared with {found}, reference says `{want}`',
                           'claim-enum')


# ---- (b) unrelated same-named declarations never matter

def add_unrelated(sm, pick):
    """Add declarations that reuse the simple names of referenced declarations in namespaces that
    are not on any scope chain of the model (a brand-new top-level namespace)."""
    sm = copy.deepcopy(sm)
    decls = declarations(sm['model'])
    used = {e['ids'][0] for e in sm['model']['root'] if e['k'] == 'ns'}
    used |= {d['fqn'][0] for d in decls}
    fresh = [n for n in ('Zz_unrelated', 'Other_ns', 'Q9') if n not in used][0]
    inner = []
    names = set()
    for d in decls:
        nm = d['fqn'][-1]
        if nm in names or d['owner'] is not None:
            continue
        names.add(nm)
        kind = ['extern', 'interface', 'enum'][(pick + len(names)) % 3]
        if kind == 'extern':
            inner.append({'k': 'extern', 'name': [nm], 'value': '::xt::Unrelated'})
        elif kind == 'interface':
            inner.append({'k': 'interface', 'name': [nm], 'types': [], 'events': []})
        else:
            inner.append({'k': 'enum', 'name': [nm], 'fields': ['U']})
    block = {'k': 'ns', 'ids': [fresh], 'elems': [{'k': 'ns', 'ids': ['Deep'], 'elems': inner}]
             if pick % 2 else inner}
    if pick % 3 == 0:
        sm['model']['root'].insert(0, block)
    else:
        sm['model']['root'].append(block)
    return sm


def check_unrelated(case):
    sm, spec = case['sm'], case['spec']
    k1, r1 = cfgspec.outcome(spec, model=sm['model'])
    sm2 = add_unrelated(sm, case['pick'])
    k2, r2 = cfgspec.outcome(spec, model=sm2['model'])
    if k1 != k2:
        raise Fail(f'build {k1} without, {k2} with same-named declarations in an unrelated '
                   f'namespace: {r2 if k2 == "err" else r1!r}', 'unrelated-outcome')
    if k1 == 'ok' and [(f[0], f[1]) for f in r1] != [(f[0], f[1]) for f in r2]:
        raise Fail('generated files change when same-named declarations are added in an unrelated '
                   'namespace', 'unrelated-output')


# ---- (c) zero / several / wrong kind => the build fails

REF_FAULTS = ['port_elsewhere', 'formal_elsewhere',
              'port_unresolvable', 'port_ambiguous', 'port_wrong_kind', 'formal_unresolvable',
              'formal_ambiguous', 'formal_wrong_kind', 'claim_reply_unresolvable',
              'claim_reply_ambiguous']


def apply_ref_fault(sm, spec, fault, pick):
    if not fault.startswith('claim_reply'):
        return c13.apply_fault(sm, spec, fault, pick)
    if not spec.get('mc'):
        return None
    sm, spec = copy.deepcopy(sm), copy.deepcopy(spec)
    port = [p for p in gen_shell.port_table(sm) if p['name'] == spec['mc']['port']][0]
    ev = [e for e in port['itf']['elem']['events'] if e['name'] == spec['mc']['claim']][0]
    if fault == 'claim_reply_unresolvable':
        ev['ret'] = ['NoSuchEnum']
        return sm, spec
    # a second enum with the same written name elsewhere on the interface's chain
    decls = declarations(sm['model'])
    have = {d['fqn'] for d in decls}
    for cand in resolution_order(ev['ret'], port['itf']['fqn']):
        if cand in have:
            continue
        if tuple(cand[:len(port['itf']['fqn'])]) == tuple(port['itf']['fqn']) and \
                len(cand) == len(port['itf']['fqn']) + 1:
            port['itf']['elem']['types'].append({'k': 'enum', 'name': [cand[-1]],
                                                 'fields': list(spec['mc']['grant'])})
            return sm, spec
    return None


def check_ref_fault(case):
    faulted = apply_ref_fault(case['sm'], case['spec'], case['fault'], case['pick'])
    if faulted is None:
        return
    sm, spec = faulted
    kind, res = cfgspec.outcome(spec, model=sm['model'])
    if kind == 'ok':
        raise Fail(f'{case["fault"]}: the build picked a declaration instead of failing',
                   f'{case["fault"]}:accepted')


def reuse_count(sm):
    names = [d['fqn'][-1] for d in declarations(sm['model'])]
    return len(names) - len(set(names))


def check_compiled(case, workdir=None):
    """Collision-heavy model compiled against a model header in which every declaration is a
    distinct, non-convertible C++ type: a wrong choice of declaration is a type error; accessor types
    are static_asserted against the reference lookup."""
    from vf.cxx import farm
    from vf.props import c06
    pr = farm.Project(case['sm'], case['spec'], case['semantics'], workdir)
    try:
        try:
            pr.generate()
        except Exception as exc:  # pylint: disable=broad-except
            raise Fail(f'valid model/configuration rejected: {type(exc).__name__}: {exc}',
                       f'rejected:{type(exc).__name__}') from None
        try:
            exe = pr.build_driver()
        except farm.BuildError as exc:
            c06.fail_build(exc, 'compiled: shell against distinct C++ types per declaration')
        imp = int(case['spec']['origin'] == 'IMPORT')
        script = [f'locator {imp} {imp} 0 0', 'construct inst'] + \
            (['client A -'] if case['spec'].get('mc') else []) + ['bind -', 'final 0']
        rc, trace, err = pr.run_driver(exe, script)
        if rc != 0 or 'final-ok' not in [t.get('what') for t in trace]:
            raise Fail(f'compiled shell does not construct: exit {rc} {err[:400]}', 'compiled-run')
    finally:
        pr.cleanup()


def run(ctx):
    base = st.one_of(gen_cfg.model_and_spec(collide=True),
                     gen_cfg.model_and_spec(collide=True, force=['mirror_ns', 'many_ports',
                                                                 'partial_spelling']),
                     gen_cfg.model_and_spec(collide=True, force=['prefix_ns', 'deep_ns']),
                     gen_cfg.model_and_spec(collide=True, force=['prefix_ns', 'many_ports']),
                     gen_cfg.model_and_spec(collide=True, force=['partial_spelling', 'deep_ns']),
                     gen_cfg.model_and_spec(force=['repeat_ns']),
                     gen_cfg.model_and_spec(force=['name_like_ns']),
                     gen_cfg.model_and_spec(force=['dict_names', 'deep_ns', 'partial_spelling']),
                     gen_cfg.model_and_spec(collide=True, force=['dict_names']),
                     gen_cfg.model_and_spec(collide=True, force=['name_like_ns', 'deep_ns']),
                     gen_cfg.model_and_spec(collide=True, force=['repeat_ns', 'many_ports']),
                     gen_cfg.model_and_spec(collide=True, want_mc=True,
                                            force=['partial_spelling']),
                     gen_cfg.model_and_spec(collide=True, force=['many_ports', 'nested_enum',
                                                                 'outer_enum'], want_mixed=True))
    nt = lambda c: reuse_count(c['sm']) >= 1  # noqa: E731
    lab = lambda c: [f'reused-names={min(reuse_count(c["sm"]), 5)}',  # noqa: E731
                     'mc' if c['spec'].get('mc') else 'no-mc']
    ctx.clause('uses_right_declaration', base, check_uses_right_declaration, ctx.n(1600, 40000),
               nontrivial=nt, labels=lab)
    ctx.clause('unrelated_namespaces', st.tuples(base, st.integers(0, 11)).map(
        lambda t: {**t[0], 'pick': t[1]}), check_unrelated, ctx.n(600, 20000), nontrivial=nt,
        labels=lambda c: ['unrelated'])
    ctx.clause('bad_reference_rejected', st.tuples(base, st.sampled_from(REF_FAULTS),
                                                   st.integers(0, 50)).map(
        lambda t: {**t[0], 'fault': t[1], 'pick': t[2]}), check_ref_fault, ctx.n(1200, 30000),
        nontrivial=lambda c: apply_ref_fault(c['sm'], c['spec'], c['fault'], c['pick']) is not None,
        labels=lambda c: [c['fault']])
    for k, v in INCONCLUSIVE.items():
        ctx.inconclusive[k] += v
    if ctx.shard is None or ctx.shard[0] == 0:
        if ctx.replay is not None:
            if ctx.replay.get('clause') == 'compiled':
                ctx.clauses_run.append('compiled')
                ctx._run_one('compiled', check_compiled, ctx.replay['case'])  # pylint: disable=protected-access
            return
        from vf.draw import draw_cases
        from vf.props import c06
        ctx.clauses_run.append('compiled')
        cases = draw_cases(base, 16 if ctx.quick else 150, ctx.seed + 5)
        for c in cases:
            ctx.record(c, nt(c), ['compiled'] + lab(c))
        c06.run_cases(ctx, 'compiled', cases, check_compiled)
