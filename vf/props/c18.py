"""C18 - indentation shifts text without changing it."""
from hypothesis import strategies as st

from vf.runner import Fail

RULE = ('Hypothesis: line lists (blank, whitespace-only, leading/trailing blanks) x indenter '
        'configurations (spaces 0..12 / default / tab; no bullets, ALL, FIRST_ONLY; glyphs of 1-8 '
        'non-blank characters), applied 1-3 times, through to_list, to_str and TextBlock.indent '
        'with/without header; oracle: direct specification of the prefix per line (compared modulo '
        'trailing whitespace, plus "no line gains trailing whitespace"), list form == string form; '
        'histories of 3-9 steps in which several indenters (constructor, the two prefab creation '
        'functions) are made, the module default is overridden, one is reconfigured in place and each '
        'is used: every indenter follows the configuration it was made with. '
        'Non-trivial: >= 2 lines, one of them blank, bullet configuration; distinct by case hash.')
ASSUMPTIONS = ['lines contain no line breaks and only space/tab as whitespace',
               'glyphs consist of non-blank characters',
               'existing trailing whitespace of a line may be dropped in bullet mode (not flagged)',
               'to_str of empty contents may be "" or a single newline']
SHARDS = {'thorough': 16}

# a "line" is one item of the content: it holds no \n, but it may hold other characters that Python's
# splitlines() treats as line boundaries (between two letters, never at an edge)
line = st.lists(st.sampled_from(list('ab \t/-*') + ['  ', 'word']), max_size=6).map(''.join)
lines = st.lists(st.one_of(line, st.sampled_from(['', ' ', '\t', 'x'])), max_size=7)
# for the indenter called directly (a TextBlock would split such an item, C17)
line_x = st.lists(st.sampled_from(list('ab \t/-*') + ['  ', 'word', 'x\x0cy', 'p\u2028q', 'm\rn', 'u\x85v',
                                                       'g\x1ch', 'k\x0bl']), max_size=6).map(''.join)
lines_x = st.lists(st.one_of(line_x, line, st.sampled_from(['', ' ', '\t', 'x'])), max_size=7)
glyph = st.lists(st.sampled_from(list('-*/>#ab+.')), min_size=1, max_size=8).map(''.join)
cfg = st.fixed_dictionaries({
    'tab': st.booleans(),
    'n': st.one_of(st.none(), st.integers(0, 12)),
    'bullet': st.one_of(st.none(), st.fixed_dictionaries({
        'mode': st.sampled_from(['ALL', 'FIRST_ONLY']), 'glyph': st.one_of(st.none(), glyph)})),
})


def mk(c):
    from dznpy.text_gen import BulletList, BulletListMode, Indentizer, Indentor
    kw = {}
    if c['tab']:
        kw['indentor'] = Indentor.TAB
    if c['n'] is not None:
        kw['spaces_count'] = c['n']
    if c['bullet'] is not None:
        bkw = {'mode': BulletListMode[c['bullet']['mode']]}
        if c['bullet']['glyph'] is not None:
            bkw['glyph'] = c['bullet']['glyph']
        kw['bullet_list'] = BulletList(**bkw)
    return Indentizer(**kw)


def is_blank(s):
    return all(ch in ' \t' for ch in s)


def spec(c, ls):
    """Prefix specification, line by line."""
    n = 4 if c['n'] is None else c['n']
    if c['bullet'] is None:
        ws = '\t' if c['tab'] else ' ' * n
        return ['' if is_blank(l) else ws + l for l in ls]
    g = c['bullet']['glyph'] if c['bullet']['glyph'] is not None else '-'
    if c['tab']:
        bullet, ws = g + '\t', '\t'
    else:
        bullet = (g + ' ').ljust(n)
        ws = ' ' * len(bullet)  # continuation lines are aligned to the text after the glyph
    out = []
    for i, l in enumerate(ls):
        if c['bullet']['mode'] == 'ALL' or i == 0:
            out.append(bullet + l)
        else:
            out.append('' if is_blank(l) else ws + l)
    return out


def exact_lines(c, n):
    """Which of n lines get the plain prefix (no bullet)?"""
    if c['bullet'] is None:
        return [True] * n
    if c['bullet']['mode'] == 'FIRST_ONLY':
        return [False] + [True] * (n - 1)
    return [False] * n


def trailing(s):
    return len(s) - len(s.rstrip(' \t'))


def compare(got, want, src, what, exact=None):
    """exact: per line, must the text match including its own trailing blanks?  (Plain indentation
    and the continuation lines of FIRST_ONLY put the prefix in front of the untouched text; bulleted
    lines may lose trailing blanks - not flagged.)"""
    if not isinstance(got, list) or len(got) != len(want):
        raise Fail(f'{what}: {len(want)} lines in, got {got!r}', 'line-count')
    for i, (g, w, s) in enumerate(zip(got, want, src)):
        if exact is not None and exact[i] and not is_blank(s) and g != w:
            raise Fail(f'{what}: line {s!r} became {g!r}, specification says {w!r} (text must be '
                       f'kept as it is, trailing blanks included)', 'line-text-exact')
        if g.rstrip(' \t') != w.rstrip(' \t'):
            raise Fail(f'{what}: line {s!r} became {g!r}, specification says {w!r}', 'line-text')
        if trailing(g) > trailing(s):
            raise Fail(f'{what}: trailing whitespace introduced: {s!r} -> {g!r}', 'trailing-ws')
        if is_blank(s) and g != '' and w == '':
            raise Fail(f'{what}: blank line did not stay empty: {g!r}', 'blank-line')


def check_to_list(case):
    ind = mk(case['cfg'])
    cur, want = list(case['lines']), list(case['lines'])
    for rnd in range(case['times']):
        src = list(cur)
        before = list(cur)
        got = ind.to_list(cur)
        if cur != before:
            raise Fail('to_list changed its argument', 'mutates-arg')
        want = spec(case['cfg'], src)
        compare(got, want, src, f'to_list round {rnd + 1}', exact_lines(case['cfg'], len(src)))
        cur = got


def check_nested(case):
    """to_list / to_str accept nested content (they flatten it first): the same container object may
    occur several times in it - a ruler, a separator block - and every occurrence counts."""
    ind = mk(case['cfg'])
    ls = list(case['lines'])
    i, j = sorted((case['cut'][0] % (len(ls) + 1), case['cut'][1] % (len(ls) + 1)))
    shared = ls[i:j]
    shape = case['shape']
    if shape == 'list':
        contents, flat = [shared, ls, shared], shared + ls + shared
    elif shape == 'deep':
        contents, flat = [[shared, [shared]], ls, [[shared]]], shared + shared + ls + shared
    else:  # dict values
        contents, flat = {'a': shared, 'b': ls, 'c': shared}, shared + ls + shared
    got = ind.to_list(contents)
    compare(got, spec(case['cfg'], flat), flat, f'to_list of nested content ({shape}, the same list '
                                                f'object {len(flat) - len(ls)} lines, several times)')
    s = ind.to_str(contents)
    if got and s != '\n'.join(got) + '\n':
        raise Fail(f'to_str {s!r} != EOL-joined to_list of the same nested content', 'to_str-differs')


def check_to_str(case):
    ind = mk(case['cfg'])
    lst = ind.to_list(list(case['lines']))
    s = ind.to_str(list(case['lines']))
    if not isinstance(s, str):
        raise Fail(f'to_str returned {type(s).__name__}', 'to_str-type')
    if lst:
        want = '\n'.join(lst) + '\n'
        if s != want:
            raise Fail(f'to_str {s!r} != EOL-joined to_list {want!r}', 'to_str-differs')
    elif s not in ('', '\n'):
        raise Fail(f'to_str of empty contents gave {s!r}', 'to_str-empty')


def check_textblock(case):
    from dznpy.text_gen import TextBlock
    hdr = case['header']
    tb = TextBlock(list(case['lines']), header=list(hdr) if hdr else None)
    src = list(tb.lines)
    if src != case['lines']:
        raise Fail('TextBlock does not hold the given lines', 'tb-lines')
    ind = mk(case['cfg'])
    observe = case.get('observe', False)
    if observe:
        before = ''.join(l + '\n' for l in (list(hdr) if hdr else []) + src)
        if str(tb) != before:
            raise Fail(f'string form before indenting {str(tb)!r}', 'header')
    if case['via_set']:
        r = tb.set_indentor(ind).indent()
    else:
        r = tb.indent(ind)
    if r is not tb:
        raise Fail('indent() does not return the block itself', 'fluent')
    got_str = str(tb)  # taken before .lines is looked at again
    compare(tb.lines, spec(case['cfg'], src), src, 'TextBlock.indent')
    want = ''.join(l + '\n' for l in (list(hdr) if hdr else []) + tb.lines)
    if got_str != want:
        raise Fail(f'string form {got_str!r}: header must be unindented and in front; want '
                   f'{want!r}' + (' (the string form had been taken before indenting)' if observe
                                  else ''), 'header')
    # repeated indentation of the same block, the string form taken in between
    cur = list(tb.lines)
    for k in range(case.get('times', 1) - 1):
        tb.indent(ind) if not case['via_set'] else tb.indent()
        nxt = spec(case['cfg'], cur)
        got_str = str(tb)
        compare(tb.lines, nxt, cur, f'TextBlock.indent, {k + 2}. time')
        want = ''.join(l + '\n' for l in (list(hdr) if hdr else []) + tb.lines)
        if got_str != want:
            raise Fail(f'string form after indenting {k + 2} times {got_str!r}, want {want!r}',
                       'header-repeated')
        cur = list(tb.lines)
    # default indentation of a fresh block: DEFAULT_INDENT_NR_SPACES spaces, no bullets
    tb2 = TextBlock(list(case['lines']))
    tb2.indent()
    compare(tb2.lines, spec({'tab': False, 'n': None, 'bullet': None}, src), src, 'default indent')


PREFABS = {'all_dashes': 'ALL', 'initial_dash': 'FIRST_ONLY'}


def check_history(case):
    """Several indenters live side by side: made by the constructor and by the two prefab creation
    functions (in any order, any number of times), the module default overridden in between (a
    documented use), one of them reconfigured in place by its owner.  Every indenter keeps indenting
    by the configuration it was made with."""
    from dznpy import text_gen
    from dznpy.text_gen import BulletListMode, Indentor, TextBlock
    old_default = text_gen.DEFAULT_INDENT_NR_SPACES
    made = []  # (indentizer, cfg it must follow | None when its owner reconfigured it)
    default_n = old_default
    try:
        for step in case['steps']:
            op = step[0]
            if op == 'make':
                c = dict(step[1])
                if c['n'] is None:
                    c = dict(c, n=default_n)  # the default in force when it was made
                made.append([mk(step[1]), c])
            elif op in PREFABS:
                fn = text_gen.all_dashes_t if op == 'all_dashes' else text_gen.initial_dash_t
                how = step[1]
                ind = fn() if how == 'default' else fn(None) if how == 'none' else \
                    fn(Indentor.TAB) if how == 'tab' else fn(Indentor.SPACES)
                made.append([ind, {'tab': how == 'tab', 'n': 2,
                                   'bullet': {'mode': PREFABS[op], 'glyph': None}}])
            elif op == 'set_default':
                text_gen.DEFAULT_INDENT_NR_SPACES = step[1]
                default_n = step[1]
            elif op == 'reconfigure' and made:
                ent = made[step[1] % len(made)]
                if ent[0].bullet_list is not None:
                    cur = ent[0].bullet_list.mode
                    ent[0].bullet_list.mode = BulletListMode.ALL \
                        if cur == BulletListMode.FIRST_ONLY else BulletListMode.FIRST_ONLY
                    ent[1] = None  # its own behaviour is its owner's business from now on
            elif op == 'use' and made:
                k = step[1] % len(made)
                ind, c = made[k]
                if c is None:
                    continue
                src = list(case['lines'])
                what = f'indenter #{k} ({c}) after {case["steps"].index(step)} steps'
                if step[2] == 'block':
                    tb = TextBlock(list(src))
                    tb.indent(ind)
                    got_str = str(tb)
                    compare(tb.lines, spec(c, src), src, what + ' via TextBlock.indent')
                    if got_str != ''.join(l + '\n' for l in tb.lines):
                        raise Fail(f'{what}: string form {got_str!r}', 'history-str')
                else:
                    compare(ind.to_list(src), spec(c, src), src, what + ' via to_list')
    finally:
        text_gen.DEFAULT_INDENT_NR_SPACES = old_default


history_steps = st.lists(st.one_of(
    st.tuples(st.just('make'), cfg),
    st.tuples(st.sampled_from(['all_dashes', 'initial_dash']),
              st.sampled_from(['default', 'spaces', 'tab', 'none'])),
    st.tuples(st.sampled_from(['all_dashes', 'initial_dash']),
              st.sampled_from(['default', 'spaces', 'tab', 'none'])),
    st.tuples(st.just('set_default'), st.integers(0, 9)),
    st.tuples(st.just('reconfigure'), st.integers(0, 5)),
    st.tuples(st.just('use'), st.integers(0, 5), st.sampled_from(['list', 'block'])),
    st.tuples(st.just('use'), st.integers(0, 5), st.sampled_from(['list', 'block']))),
    min_size=3, max_size=9)


def nontrivial(c):
    ls = c['lines']
    return len(ls) >= 2 and any(is_blank(l) for l in ls) and c['cfg']['bullet'] is not None


def labels(c):
    k = c['cfg']
    out = ['tab' if k['tab'] else 'spaces', 'bullet=' + (k['bullet']['mode'] if k['bullet'] else 'no')]
    if k['bullet'] and not k['tab']:
        g = k['bullet']['glyph'] or '-'
        n = 4 if k['n'] is None else k['n']
        out.append('glyph-wider-than-indent' if len(g) + 1 > n else 'glyph-fits')
    if any(is_blank(l) for l in c['lines']):
        out.append('has-blank')
    if c.get('times', 1) > 1:
        out.append('repeated')
    return out


def run(ctx):
    n = ctx.n(3000, 300000)
    ctx.clause('to_list', st.fixed_dictionaries({'cfg': cfg, 'lines': lines_x,
                                                 'times': st.integers(1, 3)}),
               check_to_list, n, nontrivial=nontrivial, labels=labels)
    ctx.clause('to_str', st.fixed_dictionaries({'cfg': cfg, 'lines': lines_x}), check_to_str,
               max(1, n // 3), nontrivial=nontrivial, labels=labels)
    ctx.clause('nested', st.fixed_dictionaries({
        'cfg': cfg, 'lines': lines_x, 'cut': st.tuples(st.integers(0, 8), st.integers(0, 8)),
        'shape': st.sampled_from(['list', 'deep', 'dict'])}), check_nested, max(1, n // 4),
        nontrivial=lambda c: nontrivial(c) and len(c['lines']) >= 2, labels=labels)
    hdr_line = st.lists(st.sampled_from(list('ab ') + ['  ']), min_size=1, max_size=5).map(
        ''.join)
    ctx.clause('textblock', st.fixed_dictionaries({
        'cfg': cfg, 'lines': lines, 'via_set': st.booleans(), 'observe': st.booleans(),
        'times': st.integers(1, 3),
        'header': st.one_of(st.none(), st.lists(hdr_line, min_size=1, max_size=2))}),
        check_textblock, max(1, n // 2), nontrivial=nontrivial, labels=labels)
    ctx.clause('history', st.fixed_dictionaries({'steps': history_steps, 'lines': lines}),
               check_history, max(1, n // 3),
               nontrivial=lambda c: len(c['lines']) >= 2 and
               len({s[0] for s in c['steps']} & {'make', 'all_dashes', 'initial_dash'}) >= 2 and
               any(s[0] == 'use' for s in c['steps']),
               labels=lambda c: ['history'] + sorted({s[0] for s in c['steps']}))
