"""C19 part (b): changing only copyright / creator information changes nothing but comment lines."""
import copy

from hypothesis import strategies as st

from vf import cfgspec, gen_cfg
from vf.props import c19
from vf.runner import Fail

hostile_line_text = st.lists(st.one_of(st.sampled_from(c19.HOSTILE),
                                       st.sampled_from(['\n', '\n', '\r\n', '\x0c', '\x85', ' ',
                                                        '\r', '\x1c'])), max_size=8).map(''.join)


# texts whose first line already looks like a comment (or a preprocessor line) while later ones do not
headed_text = st.tuples(st.sampled_from(['//', '// (c) me', '/// doc', '//!', '/* c */', '#pragma once']),
                        st.sampled_from(['\n', '\r\n', '\r', '\x0c', '\u2028']),
                        st.sampled_from(['All rights reserved.', 'static_assert(false, "leaked");', '',
                                         'int leaked;', '#error leaked']),
                        hostile_line_text).map(lambda t: t[0] + t[1] + t[2] + (('\n' + t[3]) if t[3] else ''))
# every line starts with the same white space (a text written as an indented block)
indented_text = st.tuples(st.sampled_from(['  ', '    ', '\t', ' \t ']),
                          st.lists(st.sampled_from(['tool: x', 'revision 1', 'built by hand', '- item', 'a  b']),
                                   min_size=1, max_size=3)).map(lambda t: '\n'.join(t[0] + l for l in t[1]))
any_text = st.one_of(hostile_line_text, hostile_line_text, headed_text, indented_text)


def strip_comment_lines(text):
    return [l for l in text.split('\n') if not l.startswith('//')]


def carried(contents, text):
    """Does the file carry `text` as consecutive comment lines: '//' + one common prefix + the line
    (blank lines as a bare comment line), leading white space of the lines intact?"""
    want = c19.c17.split_ref(text)
    while want and want[-1].strip(' \t') == '':
        want.pop()
    while want and want[0].strip(' \t') == '':
        want.pop(0)
    if not want:
        return True
    lines = contents.split('\n')
    first = want[0].rstrip(' \t')
    for i, line in enumerate(lines):
        if not (line.startswith('//') and line.rstrip(' \t').endswith(first)) or i + len(want) > len(lines):
            continue
        prefix = line.rstrip(' \t')[:len(line.rstrip(' \t')) - len(first)]
        ok = True
        for k, w in enumerate(want):
            got = lines[i + k].rstrip(' \t')
            if w.strip(' \t') == '':
                ok = got.startswith('//') and got[2:].strip(' \t') == ''
            else:
                ok = got == prefix + w.rstrip(' \t')
            if not ok:
                break
        if ok:
            return True
    return False


def check_build_pair(case):
    sm, spec = case['sm'], case['spec']
    variants = []
    for cr, ci in case['texts']:
        s = copy.deepcopy(spec)
        s['copyright'], s['creator'] = cr, ci
        kind, res = cfgspec.outcome(s, model=sm['model'])
        if kind == 'err':
            raise Fail(f'build failed for copyright {cr!r} / creator {ci!r}: '
                       f'{type(res).__name__}: {res}', f'build-error:{type(res).__name__}')
        variants.append(res)
    a, b = variants
    if [f[0] for f in a] != [f[0] for f in b]:
        raise Fail('file names depend on copyright / creator_info', 'file-names')
    for (fn, ca, _), (_, cb, _) in zip(a, b):
        if fn.startswith(tuple(x + '_' for x in ['Dzn'])) or '_Dzn_' in fn:
            if ca != cb:
                raise Fail(f'support file {fn} depends on copyright / creator_info', 'support-file')
            continue
        if strip_comment_lines(ca) != strip_comment_lines(cb):
            la, lb = strip_comment_lines(ca), strip_comment_lines(cb)
            diff = next((i for i, (x, y) in enumerate(zip(la, lb)) if x != y), min(len(la), len(lb)))
            raise Fail(f'{fn}: a non-comment line changes with copyright / creator_info: '
                       f'{la[diff:diff + 1]!r} vs {lb[diff:diff + 1]!r}', 'code-changed')
    for (cr, ci), res in zip(case['texts'], variants):
        shell = [c for fn, c, _ in res if not (fn.startswith('Dzn_') or '_Dzn_' in fn)]
        for what, text in (('copyright', cr), ('creator_info', ci)):
            if text is None or any(ch in text for ch in '\x00'):
                continue
            # (the creator information is printed in the header only: one carrying file is enough)
            if not any(carried(c, text) for c in shell):
                raise Fail(f'none of the generated shell files carries the {what} text {text!r} as comment '
                           f'lines with the original text (leading white space included)',
                           f'text-not-carried:{what}')
    for res in variants:
        for fn, contents, _ in res:
            lines = contents.split('\n')
            for i, line in enumerate(lines[:-1]):
                if line.endswith('\\') and line.startswith('//'):
                    if not lines[i + 1].startswith('//'):
                        raise Fail(f'{fn}: comment line ending in a backslash splices code: '
                                   f'{line!r} / {lines[i + 1]!r}', 'splice')


def run(ctx):
    base = st.one_of(gen_cfg.model_and_spec(), gen_cfg.model_and_spec(want_mc=True))
    texts = st.tuples(st.tuples(any_text, st.one_of(st.none(), any_text)),
                      st.tuples(any_text, st.one_of(st.none(), any_text)))
    ctx.clause('build_pair', st.tuples(base, texts).map(
        lambda t: {'sm': t[0]['sm'], 'spec': t[0]['spec'], 'texts': [list(x) for x in t[1]]}),
        check_build_pair, ctx.n(150, 6000),
        nontrivial=lambda c: any(len(c19.c17.split_ref(t[0])) >= 2 for t in c['texts']),
        labels=lambda c: ['build-pair'])
