"""C17 - text blocks keep one line per entry and flatten content losslessly."""
from hypothesis import strategies as st

from vf.runner import Fail

RULE = ('Hypothesis: st.recursive nestings of None/str/int/float/bool/list/dict/nested TextBlock, '
        'strings over an alphabet holding every line boundary Python knows, blanks, tabs and the '
        'empty string; oracle: an independent reference flattener (explicit scanner over the boundary '
        'list, no splitlines) plus the algebraic laws of the statement (str form, round trip, '
        'append/+/+= are concatenation, trim, chunk, cond_chunk); histories of 2-7 operations on one '
        'block (append / += of any content incl. a block given directly, +, nesting, lines setter, '
        'trim, observation of str()/lines in between) against a (header, lines) model. Non-trivial: nesting depth >= 2 '
        'and (a boundary other than \\n or an empty string leaf); distinct by case hash.')
ASSUMPTIONS = ['nested text blocks are header-less (a header is only given to the outermost block)',
               'appendix / preamble / empty_response of chunk()/cond_chunk() are None or non-empty '
               'strings or lists of those (the statement does not say what an empty appendix means)']
SHARDS = {'thorough': 16}

BREAKS = ['\n', '\r', '\x0b', '\x0c', '\x1c', '\x1d', '\x1e', '\x85', '\u2028', '\u2029']


def split_ref(s):
    """Reference line splitter (the semantics of str.splitlines, written out)."""
    out, cur, i = [], '', 0
    while i < len(s):
        c = s[i]
        if c == '\r' and i + 1 < len(s) and s[i + 1] == '\n':
            out.append(cur)
            cur = ''
            i += 2
            continue
        if c in BREAKS:
            out.append(cur)
            cur = ''
            i += 1
            continue
        cur += c
        i += 1
    if cur != '':
        out.append(cur)
    return out


# JSON-able content encoding: nested text block = {"$tb": content}; dict = {"$dict": [[k, v], ..]};
# float = {"$f": "nan"|"inf"|"-inf"|repr}
def ref_lines(v, skip_empty=False):
    """Depth-first, left-to-right pieces split at line breaks; None/empty containers give
    nothing; an empty string gives one blank line (unless skip_empty)."""
    if v is None:
        return []
    if isinstance(v, dict):
        if '$tb' in v:
            return ref_lines(v['$tb'])  # a nested block contributes its own lines
        if '$dict' in v:
            return [l for _, x in v['$dict'] for l in ref_lines(x, skip_empty)]
        if '$f' in v:
            return [str(float(v['$f']))]
    if isinstance(v, list):
        return [l for x in v for l in ref_lines(x, skip_empty)]
    if isinstance(v, str):
        if v == '':
            return [] if skip_empty else ['']
        return split_ref(v)
    return [str(v)]  # bool / int


def is_empty(v):
    """No leaf that is neither None nor an empty string (content 'appears to be empty')."""
    if v is None:
        return True
    if isinstance(v, dict):
        if '$tb' in v:
            return not ref_lines(v['$tb'])  # an empty nested block stringifies to ''
        if '$dict' in v:
            return all(is_empty(x) for _, x in v['$dict'])
        return False
    if isinstance(v, list):
        return all(is_empty(x) for x in v)
    if isinstance(v, str):
        return v == ''
    return False


def real(v, share=None):
    """The Python value for an encoded content.  With `share` (a dict) equal list/dict
    sub-structures are represented by one and the same object (shared identity)."""
    from dznpy.text_gen import TextBlock
    if share is not None and isinstance(v, (list, dict)) and not (isinstance(v, dict) and '$f' in v):
        import json
        key = json.dumps(v, sort_keys=True)
        if key in share:
            return share[key]
        if isinstance(v, list):
            out = [real(x, share) for x in v]
        elif '$tb' in v:
            out = TextBlock(real(v['$tb'], share))
        else:
            out = {k: real(x, share) for k, x in v['$dict']}
        share[key] = out
        return out
    if isinstance(v, dict):
        if '$tb' in v:
            return TextBlock(real(v['$tb']))
        if '$dict' in v:
            return {k: real(x) for k, x in v['$dict']}
        if '$f' in v:
            return float(v['$f'])
    if isinstance(v, list):
        return [real(x) for x in v]
    return v


def depth(v):
    if isinstance(v, dict):
        if '$tb' in v:
            return 1 + depth(v['$tb'])
        if '$dict' in v:
            return 1 + max([depth(x) for _, x in v['$dict']] + [0])
        return 0
    if isinstance(v, list):
        return 1 + max([depth(x) for x in v] + [0])
    return 0


def leaves(v):
    if isinstance(v, dict):
        if '$tb' in v:
            yield from leaves(v['$tb'])
        elif '$dict' in v:
            for _, x in v['$dict']:
                yield from leaves(x)
        else:
            yield v
    elif isinstance(v, list):
        for x in v:
            yield from leaves(x)
    else:
        yield v


ALPHA = st.sampled_from(list('ab \t') + BREAKS + ['\r\n'])
text = st.lists(ALPHA, max_size=6).map(''.join)
leaf = st.one_of(st.none(), text, text, st.integers(-3, 30), st.booleans(),
                 st.sampled_from(['nan', 'inf', '-inf', '0.0', '-1.5', '1e+30']).map(
                     lambda s: {'$f': s}))


def _extend(c):
    return st.one_of(
        st.lists(c, max_size=4),
        st.lists(st.tuples(st.sampled_from(['k', 'a', '', 'z', 'b']), c), max_size=3,
                 unique_by=lambda kv: kv[0]).map(lambda kvs: {'$dict': [list(kv) for kv in kvs]}),
        c.map(lambda x: {'$tb': x}))


content = st.recursive(leaf, _extend, max_leaves=10)
simple_text = st.lists(st.sampled_from(list('ab ') + ['\n']), min_size=1, max_size=4).map(''.join)
opt_simple = st.one_of(st.none(), simple_text, st.lists(simple_text, min_size=1, max_size=2))


def _no_break(lines, what):
    for line in lines:
        if not isinstance(line, str):
            raise Fail(f'{what}: stored line is not a str: {line!r}', 'nonstr')
        if any(b in line for b in BREAKS):
            raise Fail(f'{what}: stored line contains a line break: {line!r}', 'break-in-line')


def expect(cond, msg, sig):
    if not cond:
        raise Fail(msg, sig)


def check_core(case):
    from dznpy.text_gen import TextBlock
    c, hdr = case['content'], case.get('header')
    exp = ref_lines(c)
    tb = TextBlock(real(c))
    expect(tb.lines == exp, f'lines {tb.lines!r} != reference {exp!r}', 'lines')
    # the same container object occurring several times contributes every time
    twice = [c, 'mid', c, [c]]
    shared = real(twice, share={})
    tb2 = TextBlock(shared)
    exp2 = ref_lines(twice)
    expect(tb2.lines == exp2, f'shared containers: lines {tb2.lines!r} != reference {exp2!r}',
           'shared-container')
    _no_break(tb.lines, 'TextBlock(content)')
    expect(str(tb) == ''.join(l + '\n' for l in exp), f'str form {str(tb)!r}', 'str')
    if exp:
        back = TextBlock(str(tb)).lines
        expect(back == exp, f'round trip {back!r} != {exp!r}', 'roundtrip')
    # with a header: never part of .lines, always in front in the string form
    hexp = ref_lines(hdr)
    tbh = TextBlock(real(c), header=real(hdr))
    expect(tbh.lines == exp, f'lines with header {tbh.lines!r} != {exp!r}', 'hdr-lines')
    want = ''.join(l + '\n' for l in hexp + exp)
    expect(str(tbh) == want, f'str with header {str(tbh)!r} != {want!r}', 'hdr-str')


def check_concat(case):
    from dznpy.text_gen import TextBlock
    a, b = case['a'], case['b']
    ea, eb = ref_lines(a), ref_lines(b)
    ta = TextBlock(real(a))
    rb = real(b)
    s = ta + rb
    expect(s.lines == ea + eb, f'(a+b).lines {s.lines!r} != {ea + eb!r}', 'add')
    expect(ta.lines == ea, f'left operand of + changed: {ta.lines!r}', 'add-mutates')
    if isinstance(rb, TextBlock):
        expect(rb.lines == eb, f'right operand of + changed: {rb.lines!r}', 'add-mutates')
    t2 = TextBlock(real(a))
    r = t2.append(real(b))
    expect(r is t2 and t2.lines == ea + eb, f'append: {t2.lines!r} != {ea + eb!r}', 'append')
    t3 = TextBlock(real(a))
    t3 += real(b)
    expect(t3.lines == ea + eb, f'+=: {t3.lines!r} != {ea + eb!r}', 'iadd')
    _no_break(t3.lines, 'a += b')
    # lines setter takes a copy
    src = list(ea + eb)
    t4 = TextBlock()
    t4.lines = src
    src.append('zzz')
    expect(t4.lines == ea + eb, 'lines setter keeps an alias of the caller\'s list', 'setter-alias')


def ref_trim(lines, end_only):
    lines = list(lines)
    if not end_only:
        while lines and lines[0] == '':
            lines = lines[1:]
    while lines and lines[-1] == '':
        lines = lines[:-1]
    return lines


def check_trim(case):
    from dznpy.text_gen import TextBlock
    exp = ref_lines(case['content'])
    for end_only in (False, True):
        tb = TextBlock(real(case['content']))
        r = tb.trim(end_only=end_only)
        want = ref_trim(exp, end_only)
        expect(r is tb and tb.lines == want, f'trim(end_only={end_only}) {tb.lines!r} != {want!r}',
               'trim')


def check_chunk(case):
    from dznpy.text_gen import chunk, cond_chunk, TextBlock
    c, app = case['content'], case['appendix']
    if case['default_appendix']:
        got = chunk(real(c))
        eapp = ['']
    else:
        got = chunk(real(c), real(app))
        eapp = ref_lines(app, skip_empty=True)
    if is_empty(c):
        expect(got is None, f'chunk of empty content gave {got and got.lines!r}', 'chunk-empty')
    else:
        expect(isinstance(got, TextBlock), 'chunk of non-empty content gave None', 'chunk-none')
        want = ref_lines(c) + eapp
        expect(got.lines == want, f'chunk lines {got.lines!r} != {want!r}', 'chunk')
    # cond_chunk, per its docstring
    pre, emp, aon = case['preamble'], case['empty_response'], case['all_or_nothing']
    got = cond_chunk(real(pre), real(c), real(emp), real(app) if not case['default_appendix']
                     else '\n', all_or_nothing=aon)
    epre, eemp = ref_lines(pre, True), ref_lines(emp, True)
    if not is_empty(c):
        want = epre + ref_lines(c) + eapp
    elif aon:
        want = eemp if eemp else None
    else:
        want = (epre + eemp + eapp) if (epre + eemp) else None
    if want is None:
        expect(got is None, f'cond_chunk should give nothing, gave {got and got.lines!r}', 'cond-none')
    else:
        expect(got is not None and got.lines == want,
               f'cond_chunk lines {got and got.lines!r} != {want!r}', 'cond')


# ---- histories: one block, a generated sequence of operations, observed in between

hist_op = st.one_of(
    st.tuples(st.sampled_from(['append', 'iadd', 'add', 'nest']), content),
    st.tuples(st.sampled_from(['append', 'iadd']), content.map(lambda x: {'$tb': x})),
    st.tuples(st.just('setlines'), st.lists(st.sampled_from(['', 'a', ' b', 'c ']), max_size=3)),
    st.tuples(st.sampled_from(['trim', 'trim_end', 'str', 'str', 'lines']), st.none()))
history = st.fixed_dictionaries({
    'init': content, 'header': st.one_of(st.none(), st.lists(simple_text.map(
        lambda t: t.replace('\n', '')).filter(lambda t: t != ''), min_size=1, max_size=2)),
    'ops': st.lists(hist_op, min_size=2, max_size=7), 'peek': st.booleans()})


def check_history(case):
    """Reference model: (header lines, content lines).  Every operation is applied to the block and
    to the model; the string form and the lines are observed where the history says so and at the
    end (so that forms computed earlier can never be served again after a change)."""
    from dznpy.text_gen import TextBlock
    hdr = list(case['header'] or [])
    tb = TextBlock(real(case['init']), header=list(hdr) if hdr else None)
    model = ref_lines(case['init'])

    def observe(step):
        want = ''.join(l + '\n' for l in hdr + model)
        got = str(tb)
        expect(got == want, f'step {step}: str {got!r} != {want!r}', 'hist-str')

    for i, (op, arg) in enumerate(case['ops']):
        arg = list(arg) if isinstance(arg, tuple) else arg
        if op == 'append':
            r = tb.append(real(arg))
            expect(r is tb, 'append does not return the block', 'hist-append')
            model = model + ref_lines(arg)
        elif op == 'iadd':
            tb += real(arg)
            model = model + ref_lines(arg)
        elif op == 'add':
            new = tb + real(arg)
            observe(i)  # the old block still renders its own text
            expect(new.lines == model + ref_lines(arg), f'step {i}: + gives {new.lines!r}',
                   'hist-add')
        elif op == 'nest':
            if hdr:  # what a nested block does with its header is not part of the statement
                continue
            outer = TextBlock([tb, real(arg), tb])
            want = model + ref_lines(arg) + model
            expect(outer.lines == want, f'step {i}: nesting gives {outer.lines!r} != {want!r}',
                   'hist-nest')
        elif op == 'setlines':
            tb.lines = list(arg)
            model = list(arg)
        elif op in ('trim', 'trim_end'):
            tb.trim(end_only=op == 'trim_end')
            model = ref_trim(model, op == 'trim_end')
        elif op == 'str':
            observe(i)
        if case.get('peek', True) or op == 'lines':
            # looking at .lines is itself an access the block may react to: only some histories
            # do it after every step
            expect(tb.lines == model, f'step {i} ({op}): lines {tb.lines!r} != {model!r}',
                   'hist-lines')
    observe('end')
    expect(tb.lines == model, f'end: lines {tb.lines!r} != {model!r}', 'hist-lines')
    if not hdr:
        expect(TextBlock([tb]).lines == model, 'nesting after the history loses lines', 'hist-nest')


def nontrivial_content(c):
    if depth(c) < 2:
        return False
    for lf in leaves(c):
        if isinstance(lf, str) and (lf == '' or any(b in lf for b in BREAKS[1:])):
            return True
    return False


def labels_content(c):
    out = [f'depth={min(depth(c), 5)}']
    strs = [lf for lf in leaves(c) if isinstance(lf, str)]
    if any(s == '' for s in strs):
        out.append('empty-string')
    if any(b in s for s in strs for b in BREAKS[1:]):
        out.append('exotic-break')
    if any('\r\n' in s for s in strs):
        out.append('crlf')
    if is_empty(c):
        out.append('empty-content')
    return out


def run(ctx):
    n = ctx.n(2500, 300000)
    ctx.clause('flatten', st.fixed_dictionaries({'content': content, 'header': st.one_of(
        st.none(), st.none(), text.filter(lambda t: t != ''), st.lists(text, max_size=2))}), check_core, n,
        nontrivial=lambda c: nontrivial_content(c['content']),
        labels=lambda c: labels_content(c['content']) + (['header'] if c['header'] else []))
    ctx.clause('concat', st.fixed_dictionaries({'a': content, 'b': content}), check_concat,
               max(1, n // 2), nontrivial=lambda c: nontrivial_content(c['a']) or
               nontrivial_content(c['b']), labels=lambda c: ['concat'])
    ctx.clause('trim', st.fixed_dictionaries({'content': st.lists(st.one_of(
        st.sampled_from(['', '', ' ', '\n', 'a', '\t']), text), max_size=7)}), check_trim,
        max(1, n // 2), nontrivial=lambda c: '' in c['content'] or '\n' in c['content'],
        labels=lambda c: ['trim'])
    ctx.clause('chunk', st.fixed_dictionaries({
        'content': content, 'appendix': opt_simple, 'default_appendix': st.booleans(),
        'preamble': opt_simple, 'empty_response': opt_simple, 'all_or_nothing': st.booleans()}),
        check_chunk, max(1, n // 2),
        nontrivial=lambda c: depth(c['content']) >= 1,
        labels=lambda c: ['chunk'] + (['chunk-empty-content'] if is_empty(c['content']) else []))

    def hist_labels(c):
        ops = [o for o, _ in c['ops']]
        out = ['history']
        seen_str = False
        for o, a in c['ops']:
            if o in ('str', 'add', 'nest'):
                seen_str = True
            elif seen_str and o in ('append', 'iadd', 'setlines', 'trim', 'trim_end'):
                out.append('change-after-str')
                if isinstance(a, dict) and '$tb' in a:
                    out.append('direct-block-after-str')
                break
        return out + (['hist-header'] if c['header'] else [])
    ctx.clause('history', history, check_history, max(1, n // 2),
               nontrivial=lambda c: 'change-after-str' in hist_labels(c), labels=hist_labels)
