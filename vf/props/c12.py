"""C12 - building never alters its inputs and is independent of earlier builds."""
import contextlib
import copy
import dataclasses
import enum
import io
import json
from concurrent.futures import ThreadPoolExecutor

from hypothesis import strategies as st

from vf import cfgspec, gen_cfg
from vf.props import c08, c13
from vf.runner import Fail, case_hash

RULE = ('Model-based generation of build histories (operation sequences as data): 1-3 parsed models '
        '(shared objects), 2-8 build steps each with a valid or single-fault configuration, on the '
        'shared parsed model or a re-parsed one, with a kept or a fresh Builder; oracle after every '
        'step: deep structural snapshot of the FileContents and of the Configuration unchanged; the '
        'outcome (file names + content hashes, or exception class) equals the reference computed for '
        'the same (model, configuration) in a fresh interpreter per build; support files equal '
        'create_header(prefix) called stand-alone. Failing sequences are minimised by delta debugging '
        'over the steps. Non-trivial: >= 2 builds on one parsed model and a failed build before a '
        'successful one; distinct by sequence hash.')
ASSUMPTIONS = ['fresh-interpreter references use the same PYTHONHASHSEED (hash-seed dependence is C08)',
               'snapshot = recursive walk over dataclass fields / __dict__ / containers / enums']

SPEC_FAULTS = ['enc_unknown', 'sel_unknown_port', 'sel_both', 'sel_all_plus', 'sel_mixed_provides',
               'sel_unassigned', 'mc_unknown_port', 'mc_unknown_claim', 'mc_bad_value', 'mc_on_sts',
               'enc_interface']


def freeze(obj, depth=0):
    """Deep structural snapshot."""
    if depth > 60:
        return '<deep>'
    if obj is None or isinstance(obj, (str, int, float, bool)):
        return obj
    if isinstance(obj, enum.Enum):
        return ('enum', type(obj).__name__, obj.name)
    if isinstance(obj, (list, tuple)):
        return (type(obj).__name__, tuple(freeze(x, depth + 1) for x in obj))
    if isinstance(obj, (set, frozenset)):
        return ('set', tuple(sorted(repr(freeze(x, depth + 1)) for x in obj)))
    if isinstance(obj, dict):
        return ('dict', tuple((repr(k), freeze(v, depth + 1)) for k, v in obj.items()))
    if dataclasses.is_dataclass(obj) and not isinstance(obj, type):
        d = {f.name: getattr(obj, f.name, '<unset>') for f in dataclasses.fields(obj)}
        d.update(getattr(obj, '__dict__', {}))
        return (type(obj).__name__, tuple((k, freeze(v, depth + 1)) for k, v in sorted(d.items())))
    if hasattr(obj, '__dict__'):
        return (type(obj).__name__, tuple((k, freeze(v, depth + 1))
                                          for k, v in sorted(vars(obj).items())))
    return repr(obj)


@st.composite
def history(draw):
    n_models = draw(st.integers(1, 3))
    bases = [draw(st.one_of(gen_cfg.model_and_spec(), gen_cfg.model_and_spec(want_mc=True),
                            gen_cfg.model_and_spec(force=['many_ports'], want_mixed=True)))
             for _ in range(n_models)]
    models = [b['sm'] for b in bases]
    steps = []
    for _ in range(draw(st.integers(2, 8))):
        m = draw(st.integers(0, n_models - 1))
        twin = draw(st.integers(0, 3)) == 0 and bool(steps)
        if twin:
            # the previous build once more, its support-files prefix respelled: another
            # namespace that joins to the same underscore-separated name (A.B <-> A_B), the same
            # identifiers in another order, one level more / less
            m = steps[-1]['m']
            spec = json.loads(json.dumps(steps[-1]['spec']))
            ids = list(spec.get('prefix') or ['Lib', 'Util'])
            how = draw(st.integers(0, 3))
            if how == 0:
                ids = ['_'.join(ids)] if len(ids) > 1 else (ids[0].split('_') if '_' in ids[0].strip('_')
                                                           else ids + ['X'])
            elif how == 1:
                ids = list(reversed(ids)) if len(ids) > 1 else ids + ids
            elif how == 2:
                ids = ids[:-1] or ['Lib']
            else:
                ids = [ids[0] + '_' + ids[0]] + ids[1:]
            spec['prefix'] = [i for i in ids if i] or ['Lib']
        elif draw(st.integers(0, 2)) == 0:
            spec = bases[m]['spec']
        else:
            spec = draw(gen_cfg.valid_spec(models[m]))['spec']
        fault = None
        if draw(st.integers(0, 2)) == 0:
            fault = draw(st.sampled_from(SPEC_FAULTS))
            faulted = c13.apply_fault(models[m], spec, fault, draw(st.integers(0, 50)))
            if faulted is not None and faulted[0]['model'] == models[m]['model']:
                spec = faulted[1]
            else:
                fault = None
        steps.append({'m': m, 'spec': spec, 'fault': fault, 'fresh_builder': draw(st.booleans()),
                      'reparse': draw(st.integers(0, 4)) == 0})
    return {'models': models, 'steps': steps}


def pair_key(case, step):
    return case_hash([case['models'][step['m']]['model'], step['spec']])


def references(cases):
    """Fresh interpreter per distinct (model, spec): {key: result line}."""
    todo = {}
    for case in cases:
        for step in case['steps']:
            todo.setdefault(pair_key(case, step), {'sm': case['models'][step['m']],
                                                   'spec': step['spec']})
    keys = list(todo)
    with ThreadPoolExecutor(max_workers=16) as ex:
        res = list(ex.map(lambda k: c08.run_worker([todo[k]], 0, 0)[0], keys))
    return dict(zip(keys, res))


def eval_sequence(case, refs):
    from dznpy.adv_shell import Builder
    from dznpy.support_files import (ilog, meta_helpers, misc_utils, multi_client_selector,
                                     mutex_wrapped, strict_port)
    from dznpy.scoping import NamespaceIds
    from vf.worker import digest
    fcs = {}
    builder = None
    for i, step in enumerate(case['steps']):
        m = step['m']
        if m not in fcs or step['reparse']:
            fcs[m] = cfgspec.parse_model(case['models'][m]['model'])
        fc = fcs[m]
        snap_fc = freeze(fc)
        spec = copy.deepcopy(step['spec'])
        cfg = None
        try:
            cfg = cfgspec.mk_configuration(spec, fc)
            snap_cfg = freeze(cfg)
            if step['fresh_builder'] or builder is None:
                builder = Builder()
            with contextlib.redirect_stdout(io.StringIO()):
                res = builder.build(cfg)
            got = {'files': digest([(f.filename, f.contents, f.hash) for f in res.files])}
            files = res.files
        except Exception as exc:  # pylint: disable=broad-except
            got = {'err': type(exc).__name__}
            files = None
        what = f'step {i} (model {m}, fault {step["fault"]})'
        if freeze(fc) != snap_fc:
            raise Fail(f'{what}: the parsed model was changed by the build', 'model-changed')
        if cfg is not None and freeze(cfg) != snap_cfg:
            raise Fail(f'{what}: the configuration object was changed by the build', 'cfg-changed')
        if spec != step['spec']:
            raise Fail(f'{what}: the name lists handed to the configuration were changed',
                       'spec-changed')
        ref = refs[pair_key(case, step)]
        if ('files' in got) != ('files' in ref):
            raise Fail(f'{what}: {"built" if "files" in got else "failed with " + got["err"]} here, '
                       f'a fresh process {"built" if "files" in ref else "fails with " + ref["err"]}',
                       'outcome-differs')
        if 'files' in got:
            a = [(f[0], f[1], f[3]) for f in got['files']]
            b = [(f[0], f[1], f[3]) for f in ref['files']]
            if a != b:
                diff = [x[0] for x, y in zip(a, b) if x != y] or 'file list'
                raise Fail(f'{what}: output differs from the first build of a fresh process: {diff}',
                           'output-differs')
            prefix = None if spec.get('prefix') is None else NamespaceIds(list(spec['prefix']))
            alone = {}
            for mod in (strict_port, ilog, misc_utils, meta_helpers, multi_client_selector,
                        mutex_wrapped):
                g = mod.create_header(prefix)
                alone[g.filename] = g.contents
            for f in files[2:]:
                if alone.get(f.filename) != f.contents:
                    raise Fail(f'{what}: support file {f.filename} differs from create_header() '
                               f'called stand-alone', 'support-file-differs')
            if len(files) != 8 or {f.filename for f in files[2:]} != set(alone):
                raise Fail(f'{what}: support file set {[f.filename for f in files]}', 'support-set')
        elif got['err'] != ref['err']:
            raise Fail(f'{what}: fails with {got["err"]}, a fresh process with {ref["err"]}',
                       'error-differs')


def stats(case):
    by_model = {}
    fail_before_ok = False
    failed = False
    for s in case['steps']:
        if not s['reparse']:
            by_model[s['m']] = by_model.get(s['m'], 0) + 1
        if s['fault']:
            failed = True
        elif failed:
            fail_before_ok = True
    return max(by_model.values() or [0]), fail_before_ok


def check_case(case):
    eval_sequence(case, references([case]))


def minimise(case, refs, sig):
    """ddmin over the steps while the failure signature persists."""
    steps = list(case['steps'])
    changed = True
    while changed and len(steps) > 1:
        changed = False
        for i in range(len(steps)):
            trial = steps[:i] + steps[i + 1:]
            try:
                eval_sequence({'models': case['models'], 'steps': trial}, refs)
            except Fail as f:
                if f.sig == sig:
                    steps = trial
                    changed = True
                    break
            except Exception:  # pylint: disable=broad-except
                pass
    return {'models': case['models'], 'steps': steps}


def run(ctx):
    name = 'history'
    ctx.clauses_run.append(name)
    if ctx.replay is not None:
        if ctx.replay.get('clause') == name:
            ctx._run_one(name, check_case, ctx.replay['case'])  # pylint: disable=protected-access
        return
    from vf.draw import draw_cases
    from vf.runner import load_regress
    cases = load_regress(ctx.prop, name) + draw_cases(history(), 120 if ctx.quick else 3000,
                                                      ctx.seed)
    refs = references(cases)
    seen = set()
    for case in cases:
        builds, fbo = stats(case)
        ctx.record(case, builds >= 2 and fbo,
                   [f'steps={len(case["steps"])}', f'same-model-builds={min(builds, 5)}'] +
                   (['fail-before-success'] if fbo else []) +
                   (['kept-builder'] if any(not s['fresh_builder'] for s in case['steps']) else []))
        try:
            ctx._guard(lambda c: eval_sequence(c, refs), case)  # pylint: disable=protected-access
        except Fail as f:
            sig = f'{name}:{f.sig}'
            if sig in seen:
                ctx.excluded[sig] += 1
                continue
            seen.add(sig)
            ctx.add_violation(name, f, minimise(case, refs, f.sig))
    ctx.extra['fresh_process_references'] = len(refs)
    ctx.extra['builds_in_sequences'] = sum(len(c['steps']) for c in cases)
    json.dumps(ctx.extra)
