"""C08 - output is a pure function of model and configuration."""
import json
import os
import subprocess
import sys
from concurrent.futures import ThreadPoolExecutor

from vf import gen_cfg
from vf.runner import REPO_SRC, VERIF_DIR, Fail, HarnessError

RULE = ('Differential across processes: Hypothesis draws (shell model, configuration) pairs with >= 2 '
        'names in an explicit port selection (and some without); each pair is built in child '
        'interpreters started with different PYTHONHASHSEED values x different construction orders of '
        'the name sets, in warm batch workers (fresh Builder per build, and one Builder instance reused '
        'for the whole batch), in a fresh process per case, and as the second build after a user has '
        'extended own NamespaceIds / Fqn values (made from every identifier occurring in the output) '
        'in place, and in another working directory where the configured file name is a symbolic link '
        'to a differently named file, and in processes started with -O / -OO, with an ASCII (C) locale, '
        'and from a secondary thread; oracle: all variants '
        'agree on file names, sha256 of the contents and reported hashes (or all fail with the same '
        'error class), and every reported hash equals md5 of the UTF-8 contents. Non-trivial: >= 2 '
        'explicit names in a selection; distinct by hash of (model, spec).')
ASSUMPTIONS = ['hash seeds explored: 0, 1, 2, 3 and 1000+VERIF_SEED (quick: 0, 1, 2, 1000+seed)',
               'set construction order is varied by building the Python sets from differently '
               'ordered name lists (vf/cfgspec.py)']


FSENV = ('other working directory in which the configured file name exists as a symbolic link to a '
         'differently named file')
NOISE = 'second build after unrelated use of the public helpers (own values extended in place)'


PROC_MODES = {
    'O': 'interpreter started with -O (assert statements and __debug__ blocks are not executed)',
    'OO': 'interpreter started with -OO (additionally no docstrings)',
    'clocale': 'LANG=C / LC_ALL=C, PYTHONUTF8=0, locale coercion off (ASCII locale encoding)',
    'thread': 'build performed by a secondary thread of the process',
}


def run_worker(cases, hashseed, perm, shared_builder=False, user_noise=False, fs_env=False, mode=None):
    env = dict(os.environ)
    env['PYTHONHASHSEED'] = str(hashseed)
    flags = []
    if mode in ('O', 'OO'):
        flags = ['-' + mode]
    if mode == 'clocale':
        env.update({'LANG': 'C', 'LC_ALL': 'C', 'PYTHONUTF8': '0', 'PYTHONCOERCECLOCALE': '0',
                    'PYTHONIOENCODING': 'utf-8'})
    env['PYTHONPATH'] = os.pathsep.join([REPO_SRC, VERIF_DIR, os.path.join(VERIF_DIR, '.deps')])
    env['PYTHONDONTWRITEBYTECODE'] = '1'
    data = ''.join(json.dumps({'model': c['sm']['model'], 'spec': c['spec'], 'perm': perm,
                               'shared_builder': shared_builder, 'user_noise': user_noise,
                               'fs_env': fs_env, 'mode': mode}) + '\n'
                   for c in cases)
    r = subprocess.run([sys.executable] + flags + ['-m', 'vf.worker'], input=data, capture_output=True,
                       text=True, env=env, cwd=VERIF_DIR, timeout=3600, check=False)
    lines = [json.loads(l) for l in r.stdout.splitlines() if l.strip()]
    if r.returncode != 0 or len(lines) != len(cases) or any('harness_error' in l for l in lines):
        raise HarnessError(f'worker failed (rc={r.returncode}): {r.stderr[-500:]} {lines[:1]}')
    return lines


def n_explicit(spec):
    return max([len(spec[s][k]) for s in ('prov', 'req') for k in ('sts', 'mts')
                if isinstance(spec[s][k], list)] + [0])


def compare(case, variants):
    """variants: list of (label, result line)."""
    ref_label, ref = variants[0]
    for label, res in variants:
        if 'files' in res:
            for fn, _sha, md5, reported in res['files']:
                if md5 != reported:
                    raise Fail(f'{label}: reported hash of {fn} is {reported}, md5 of its UTF-8 '
                               f'contents is {md5}', 'hash-not-md5')
        if ('files' in res) != ('files' in ref):
            raise Fail(f'{ref_label} {"built" if "files" in ref else "failed"} but {label} '
                       f'{"built" if "files" in res else "failed: " + res.get("msg", "")}',
                       'outcome-differs')
        if 'files' in res:
            a = [(f[0], f[1], f[3]) for f in ref['files']]
            b = [(f[0], f[1], f[3]) for f in res['files']]
            if a != b:
                diff = [x[0] for x, y in zip(a, b) if x != y] or 'file list'
                raise Fail(f'{ref_label} and {label} produce different output: {diff}',
                           'output-differs')
        elif res['err'] != ref['err']:
            raise Fail(f'{ref_label} fails with {ref["err"]}, {label} with {res["err"]}',
                       'error-differs')


def check_case(case):
    """Replay: build this one case under all variants (fresh processes).  A case with a 'batch' is a
    sequence of cases built by one Builder instance in one process; its last element is compared
    with the same case built alone."""
    if 'batch' in case:
        batch = case['batch']
        alone = run_worker([batch[-1]], 0, 0)[0]
        together = run_worker(batch, 0, 0, True)[-1]
        compare(batch[-1], [('built alone', alone),
                            ('one Builder instance reused for the whole batch', together)])
        return
    variants = []
    for hs in (0, 1, 2, 3, 17):
        for perm in (0, 1, 2):
            variants.append((f'hashseed={hs}/order={perm}', run_worker([case], hs, perm)[0]))
    variants.append((NOISE, run_worker([case], 0, 0, False, True)[0]))
    variants.append((FSENV, run_worker([case], 0, 0, False, False, True)[0]))
    for mode, text in PROC_MODES.items():
        variants.append((text, run_worker([case], 0, 0, mode=mode)[0]))
    compare(case, variants)


def run(ctx):
    name = 'variants_agree'
    ctx.clauses_run.append(name)
    if ctx.replay is not None:
        if ctx.replay.get('clause') == name:
            ctx._run_one(name, check_case, ctx.replay['case'])  # pylint: disable=protected-access
        return
    from hypothesis import strategies as st
    from vf.draw import draw_cases
    from vf.runner import load_regress
    n = 240 if ctx.quick else 2500
    strat = st.one_of(gen_cfg.model_and_spec(want_mixed=True, force=['many_ports'], explicit=True),
                      gen_cfg.model_and_spec(force=['many_ports'], explicit=True),
                      gen_cfg.model_and_spec(want_mixed=True, force=['many_ports'], want_mc=True),
                      gen_cfg.model_and_spec(force=['many_ports']),
                      gen_cfg.model_and_spec())
    cases = load_regress(ctx.prop, name) + \
        [{'sm': c['sm'], 'spec': c['spec']} for c in draw_cases(strat, n, ctx.seed)]
    seeds = [0, 1, 2, 1000 + ctx.seed] if ctx.quick else [0, 1, 2, 3, 4, 5, 6, 1000 + ctx.seed]
    perms = [0, 1] if ctx.quick else [0, 1, 2, 3]
    jobs = [(hs, p) for hs in seeds for p in perms]
    with ThreadPoolExecutor(max_workers=16) as ex:
        results = list(ex.map(lambda j: run_worker(cases, j[0], j[1]), jobs))
        # fresh process per case for a subset (first build of the process)
        fresh_idx = list(range(0, len(cases), max(1, len(cases) // (12 if ctx.quick else 100))))
        fresh = list(ex.map(lambda i: run_worker([cases[i]], 1, 1)[0], fresh_idx))
        shared_f = ex.submit(run_worker, cases, 0, 0, True)  # one Builder for all cases
        noise_f = ex.submit(run_worker, cases, 0, 0, False, True)
        fsenv_f = ex.submit(run_worker, cases, 0, 0, False, False, True)
        modes_f = {m: ex.submit(run_worker, cases, 0, 0, mode=m) for m in PROC_MODES}
        shared, noise, fsenv = shared_f.result(), noise_f.result(), fsenv_f.result()
        modes = {m: f.result() for m, f in modes_f.items()}
    seen = set()
    for i, case in enumerate(cases):
        nt = n_explicit(case['spec']) >= 2
        ctx.record(case, nt, [f'explicit-names={min(n_explicit(case["spec"]), 4)}',
                              'mc' if case['spec'].get('mc') else 'no-mc'])
        variants = [(f'hashseed={hs}/order={p}', results[k][i]) for k, (hs, p) in enumerate(jobs)]
        if i in fresh_idx:
            variants.append(('fresh process hashseed=1/order=1', fresh[fresh_idx.index(i)]))
        variants.append(('one Builder instance reused for the whole batch', shared[i]))
        variants.append((NOISE, noise[i]))
        variants.append((FSENV, fsenv[i]))
        variants += [(PROC_MODES[m], modes[m][i]) for m in PROC_MODES]
        try:
            compare(case, variants)
        except Fail as f:
            sig = f'{name}:{f.sig}'
            if sig not in seen:
                seen.add(sig)
                rcase = case
                if 'one Builder instance' in f.msg:
                    # history dependent: find an earlier case that, built first by the same
                    # Builder, reproduces the deviation (else keep the whole prefix)
                    rcase = {'batch': cases[:i + 1]}
                    for j in range(i):
                        try:
                            check_case({'batch': [cases[j], case]})
                        except Fail:
                            rcase = {'batch': [cases[j], case]}
                            break
                ctx.add_violation(name, f, rcase)
            else:
                ctx.excluded[sig] += 1
    ctx.evaluations += len(cases) * (len(jobs) - 1) + len(fresh_idx)
    ctx.extra['variants_per_case'] = len(jobs)
    ctx.extra['builds'] = len(cases) * len(jobs) + len(fresh_idx)
