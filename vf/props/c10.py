"""C10 - final construction detects every unbound boundary event."""
from hypothesis import strategies as st

from vf import gen_cfg
from vf.cxx import farm
from vf.props import c06
from vf.runner import Fail

RULE = ('Hypothesis draws shell models x configurations (STS/MTS/multi-client/injected mixes, 0-3 '
        'registered clients); per compiled shell the driver enumerates *every single omission* '
        '(exhaustive per model): each user-side event of each exposed port (provides-out, requires-in, '
        'out-events of every registered client) and each component-side event (the mock component '
        'leaves one handler unbound). Oracle: everything bound => FinalConstruct(&parent) returns and '
        'the component\'s meta parent is &parent (nullptr by default); exactly one omission => '
        'dzn::binding_error, never a normal return; after a successful final construction a new '
        'client id is refused and an existing one still resolves. Non-trivial: an omission on a model '
        'with ports of different semantics; distinct by (model, omitted event).')
LEVEL = 'fault_enumeration'
ASSUMPTIONS = c06.ASSUMPTIONS + ['the selector\'s ILog functors are not port events and are not omitted']


def omissions(info, clients):
    """[(kind, script options)]; the first one is an event of a port of the component that the shell
    does not expose (the mock component's inner port)."""
    return [('comp:inner-port', {'skipcomp': 'vf_inner'})] + exposed_omissions(info, clients)


def exposed_omissions(info, clients):
    """[(kind, script lines that set up exactly this omission)]"""
    out = []
    for p in info.ports:
        nm = p['name']
        for ev in p['itf']['elem']['events']:
            if info.is_mc(p):
                if ev['dir'] == 'out':
                    for c in clients:
                        out.append((f'client:{c}:{nm}.out.{ev["name"]}', {'client_skip': (c, ev['name'])}))
                else:
                    out.append((f'comp:{nm}.in.{ev["name"]}', {'skipcomp': f'{nm}.in.{ev["name"]}'}))
            elif p['dir'] == 'provides' and ev['dir'] == 'out':
                out.append((f'user:{nm}.out.{ev["name"]}', {'bind_skip': f'{nm}.out.{ev["name"]}'}))
            elif p['dir'] == 'provides':
                out.append((f'comp:{nm}.in.{ev["name"]}', {'skipcomp': f'{nm}.in.{ev["name"]}'}))
            elif ev['dir'] == 'in':
                out.append((f'user:{nm}.in.{ev["name"]}', {'bind_skip': f'{nm}.in.{ev["name"]}'}))
            else:
                out.append((f'comp:{nm}.out.{ev["name"]}', {'skipcomp': f'{nm}.out.{ev["name"]}'}))
    return out


def script(info, clients, om, with_parent):
    imp = int(not info.create)
    s = [f'locator {imp} {imp} 0 0']
    if om.get('skipcomp'):
        s.append(f'skipcomp {om["skipcomp"]}')
    s.append('construct inst')
    for c in clients:
        skip = om['client_skip'][1] if om.get('client_skip') and om['client_skip'][0] == c else '-'
        s.append(f'client {c} {skip}')
    s.append(f'bind {om.get("bind_skip", "-")}')
    s.append(f'final {int(with_parent)}')
    return s


def run_one(pr, exe, lines):
    rc, trace, err = pr.run_driver(exe, lines)
    notes = [t for t in trace if t.get('k') == 'note']
    if rc != 0 or 'end' not in [t['what'] for t in notes]:
        raise Fail(f'driver crashed (exit {rc}) on script {lines}: {err[:600]}', f'crash:{rc}')
    return notes


def check_case(case, workdir=None):
    sm, spec, sem = case['sm'], case['spec'], case['semantics']
    pr = farm.Project(sm, spec, sem, workdir)
    try:
        try:
            pr.generate()
        except Exception as exc:  # pylint: disable=broad-except
            raise Fail(f'valid model/configuration rejected: {type(exc).__name__}: {exc}',
                       f'rejected:{type(exc).__name__}') from None
        info = pr.info
        try:
            exe = pr.build_driver()
        except farm.BuildError as exc:
            c06.fail_build(exc, 'build: generated shell')
        clients = gen_cfg.client_names(case.get('naming'), case.get('clients', 2)) if info.mc else []
        mixed = len(set(sem.values())) > 1 or bool(info.mc)
        done = []
        # everything bound
        for wp in (1, 0):
            lines = script(info, clients, {}, wp)
            if info.mc:
                lines += ['client Z_new -', f'client {clients[0] if clients else "A"} -']
            notes = run_one(pr, exe, lines)
            fin = [t for t in notes if t['what'].startswith('final')]
            if not fin or fin[0]['what'] != 'final-ok':
                raise Fail(f'all events bound, but final construction failed: {fin}', 'all-bound:threw')
            if not fin[0]['parent_set']:
                raise Fail('final construction did not record the given parent in the component meta '
                           f'(with parent argument: {bool(wp)})', 'parent-meta')
            if info.mc:
                late = [t for t in notes if t['what'].startswith('client-') and t['id'] == 'Z_new']
                if not late or late[0]['what'] != 'client-threw':
                    raise Fail('a new client could be registered after final construction',
                               'late-registration')
                if clients:
                    again = [t for t in notes if t['what'].startswith('client-') and
                             t['id'] == clients[0]]
                    if again[-1]['what'] != 'client-ok':
                        raise Fail(f'an existing client id no longer resolves after final '
                                   f'construction: {again[-1]}', 'existing-client')
            done.append(('all-bound', mixed))
        # every single omission
        for kind, om in omissions(info, clients):
            lines = script(info, clients, om, 1)
            # ... and again: a second attempt with the event still unbound; then (user-side omission
            # on a shell without multi-client port) the missing event is bound after all
            lines.append('final 1')
            rebind = bool(om.get('bind_skip')) and not info.mc
            if rebind:
                lines += ['bind -', 'final 1']
            notes = run_one(pr, exe, lines)
            fin = [t for t in notes if t['what'].startswith('final')]
            role = kind.split(':')[0]
            if not fin:
                raise Fail(f'omission {kind}: no final construction result: {notes}', 'no-final')
            if fin[0]['what'] == 'final-ok':
                raise Fail(f'omission {kind}: final construction returned although the event is '
                           f'unbound', f'undetected:{role}')
            if fin[0].get('type') != 'binding_error':
                raise Fail(f'omission {kind}: final construction failed with {fin[0]} instead of a '
                           f'binding error', f'wrong-error:{role}')
            if len(fin) < 2 or fin[1]['what'] == 'final-ok':
                raise Fail(f'omission {kind}: the first final construction failed, a second one - the '
                           f'event still unbound - returned: {fin[1:2]}', f'undetected-on-retry:{role}')
            if rebind and (len(fin) < 3 or fin[2]['what'] != 'final-ok' or not fin[2]['parent_set']):
                raise Fail(f'omission {kind}: after the missing event was bound as well, final '
                           f'construction still does not succeed / record the parent: {fin[2:3]}',
                           'retry-after-binding')
            done.append((kind, mixed))
        return done
    finally:
        pr.cleanup()


def strata():
    return [gen_cfg.model_and_spec(force=['many_ports', 'injected'], want_mixed=True),
            gen_cfg.model_and_spec(force=['many_requires'], want_mixed='MSM'),
            gen_cfg.model_and_spec(force=['many_requires'], want_mixed='SMMS'),
            gen_cfg.model_and_spec(want_mc=True, force=['many_ports']),
            gen_cfg.model_and_spec(want_mc=True),
            gen_cfg.model_and_spec(want_mc=True, force=['many_provides']),
            gen_cfg.model_and_spec(want_mc=True, force=['prefix_ports', 'many_ports']),
            gen_cfg.model_and_spec(force=['prefix_ports', 'many_ports'], want_mixed=True),
            gen_cfg.model_and_spec(force=['shared_itf', 'many_ports']),
            gen_cfg.model_and_spec(force=['big'], want_mixed='MSM'),
            gen_cfg.model_and_spec(force=['one_way_itf', 'many_ports'], prov_sem='MTS', want_mixed='MS'),
            gen_cfg.model_and_spec()]


def with_clients(base):
    return st.tuples(base, st.integers(0, 3), st.sampled_from(
        ['plain', 'prefix-desc', 'prefix-asc', 'reverse', 'padded'])).map(
            lambda t: {**t[0], 'clients': t[1], 'naming': t[2]})


def run(ctx):
    name = 'omissions'
    ctx.clauses_run.append(name)
    if ctx.replay is not None:
        if ctx.replay.get('clause') == name:
            ctx._run_one(name, lambda c: check_case(c), ctx.replay['case'])  # pylint: disable=protected-access,unnecessary-lambda
        return
    from vf.draw import draw_stratified
    from vf.runner import case_hash, load_regress
    cases = load_regress(ctx.prop, name) + gen_cfg.alternate_histories(
        draw_stratified(strata(), 32 if ctx.quick else 250, ctx.seed, wrap=with_clients),
        ('semantics', 'edited'))
    done = {}

    def check(case, workdir):
        done[id(case)] = check_case(case, workdir)
    c06.run_cases(ctx, name, cases, check)
    for case in cases:
        mh = case_hash([case['sm']['model'], case['spec'], case.get('clients'), case.get('naming')])
        for kind, nt in done.get(id(case)) or []:
            ctx.record([mh, kind], nt and kind != 'all-bound', [kind.split(':')[0]])
        for lab in c06.labels(case):
            ctx.classes[lab] += 1
    ctx.exhaustive = True
    ctx.extra['exhaustive_part'] = 'every single unbound event per compiled model (user side, per ' \
                                   'registered client, component side)'
    ctx.extra['models'] = len(cases)
