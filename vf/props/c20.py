"""C20 - C++ building blocks render matching declarations and definitions."""
import os
import shutil
import subprocess
import tempfile
from concurrent.futures import ThreadPoolExecutor

from hypothesis import strategies as st

from vf.runner import Fail, HarnessError

RULE = ('(a) Hypothesis: Function / Constructor / Destructor descriptions over every field '
        'combination the constructors accept (return TypeDesc with const / & / * / template '
        'argument, 0-5 params with and without defaults, prefix, cav, override, initialisation, '
        'contents, owner); oracle: an independent signature tokenizer parses as_decl and as_def and '
        'compares both with each other and with the description. (b) Namespace / Struct / Class / '
        'AccessSpecifiedSection / includes / MemberVariable: balanced, correctly named open/close '
        'pairs around unchanged contents. (c) random semantically valid compositions (classes with '
        'constructors, destructor, member/static/virtual/free functions, members, in named / '
        'anonymous namespaces) rendered as header+source and checked with g++ -std=c++17 '
        '-fsyntax-only. Non-trivial: a function with >= 2 params, one with a default, inside an '
        'owner; distinct by case hash.')
ASSUMPTIONS = ['default values / initialisations are taken from a pool of C++ expressions without '
               'unbalanced brackets', 'g++ 12 -std=c++17 -fsyntax-only -Wall as the compiler oracle',
               'no `override` in compiled compositions (needs a base class)']
SHARDS = {'thorough': 16}

IDS = ['a', 'B', 'My', 'Data', 'x_1', '_t', 'std', 'string', 'Hal', 'IHeater', 'T9']
# incl. names that start with / contain / equal-but-for-case the names of the owning scopes below
NAMES = ['Calc', 'process', 'f', 'Get_x', '_run', 'operatorX', 'A1', 'MyToasterReset', 'Sx', 'S_', 'XX',
         'Outer_1_', 'mytoaster', 'GetMyToaster', 'SS']
DEFAULTS = ['', '', '123u', '""', 'nullptr', '{}', '{1, 2}', '"a, b"', 'f(1, 2)', "','", '-1',
            'std::string("x=)")']
CAVS = ['', 'const', 'volatile', 'const volatile']

fqn = st.fixed_dictionaries({'ids': st.lists(st.sampled_from(IDS), min_size=1, max_size=3),
                             'root': st.booleans()})
typedesc = st.fixed_dictionaries({
    'fqn': fqn, 'tpl': st.one_of(st.none(), fqn), 'postfix': st.sampled_from(['', '&', '*']),
    'const': st.booleans(), 'default': st.sampled_from(DEFAULTS)})
param = st.fixed_dictionaries({'type': typedesc, 'name': st.sampled_from(
    ['x', 'y', 'message', 'p_1', '_z', 'value', 'n'])})
params = st.lists(param, max_size=5)
contents = st.one_of(st.just(''), st.lists(st.sampled_from(
    ['return x;', 'int y = 0;', '', '    nested();', 'if (a) { b(); }', '// note', 'x = {1, 2};']),
    min_size=1, max_size=4).map('\n'.join))
scope = st.one_of(st.none(), st.fixed_dictionaries({
    'cls': st.booleans(), 'name': st.sampled_from(['MyToaster', 'S', 'Outer_1', 'X'])}))


@st.composite
def function_desc(draw):
    sc = draw(scope)
    prefix = draw(st.sampled_from(['member', 'member', 'static', 'virtual'] if sc else
                                  ['member', 'static']))
    init = draw(st.sampled_from(['', '', '', 'default', 'delete'] + (['0'] if prefix == 'virtual'
                                                                     else [])))
    return {'what': 'function', 'ret': draw(typedesc), 'name': draw(st.sampled_from(NAMES)),
            'params': draw(params), 'prefix': prefix, 'cav': draw(st.sampled_from(CAVS)),
            'override': draw(st.booleans()), 'init': init, 'contents': draw(contents), 'scope': sc}


@st.composite
def ctor_desc(draw):
    init = draw(st.sampled_from(['', '', 'default', 'delete']))
    mil = [] if init else draw(st.lists(st.sampled_from(
        ['m_number(1)', 'm_two{2 }', 'm_xyz ("Two")', 'Base(x, y)', 'm_f([this](const auto& i) '
         '{ return g(i); })']), max_size=3))
    ps = draw(st.lists(st.one_of(param, param, st.none()), max_size=4))
    return {'what': 'ctor', 'scope': draw(scope.filter(lambda s: s is not None)),
            'explicit': draw(st.booleans()), 'params': ps, 'init': init, 'mil': mil,
            'contents': draw(contents)}


@st.composite
def dtor_desc(draw):
    return {'what': 'dtor', 'scope': draw(scope.filter(lambda s: s is not None)),
            'override': draw(st.booleans()), 'init': draw(st.sampled_from(['', '', 'default',
                                                                           'delete'])),
            'contents': draw(contents)}


# ---- building the real objects from a description

def mk_fqn(d):
    from dznpy.cpp_gen import Fqn
    from dznpy.scoping import NamespaceIds
    return Fqn(NamespaceIds(list(d['ids'])), d['root'])


def mk_type(d):
    from dznpy.cpp_gen import TemplateArg, TypeDesc, TypePostfix
    post = {'': TypePostfix.NONE, '&': TypePostfix.REFERENCE, '*': TypePostfix.POINTER}[d['postfix']]
    return TypeDesc(mk_fqn(d['fqn']), TemplateArg(mk_fqn(d['tpl'])) if d['tpl'] else None, post,
                    d['const'], d['default'])


def mk_param(d):
    from dznpy.cpp_gen import Param
    return None if d is None else Param(mk_type(d['type']), d['name'])


def mk_scope(d):
    from dznpy.cpp_gen import Class, Struct
    if d is None:
        return None
    return (Class if d['cls'] else Struct)(d['name'])


def mk(desc):
    from dznpy.cpp_gen import Constructor, Destructor, Function, FunctionPrefix
    if desc['what'] == 'function':
        prefix = {'member': FunctionPrefix.MEMBER_FUNCTION, 'static': FunctionPrefix.STATIC,
                  'virtual': FunctionPrefix.VIRTUAL}[desc['prefix']]
        return Function(mk_type(desc['ret']), desc['name'], [mk_param(p) for p in desc['params']],
                        prefix, desc['cav'], desc['override'], desc['init'], desc['contents'],
                        mk_scope(desc['scope']))
    if desc['what'] == 'ctor':
        return Constructor(mk_scope(desc['scope']), desc['explicit'],
                           [mk_param(p) for p in desc['params']], desc['init'], list(desc['mil']),
                           desc['contents'])
    return Destructor(mk_scope(desc['scope']), desc['override'], desc['init'], desc['contents'])


# ---- independent signature tokenizer

def type_str(d):
    def f(q):
        return ('::' if q['root'] else '') + '::'.join(q['ids'])
    s = f(d['fqn']) + (f'<{f(d["tpl"])}>' if d['tpl'] else '') + d['postfix']
    return ('const ' + s) if d['const'] else s


def split_top(s, sep):
    """Split at `sep` outside of (), {}, [], <> and string/char literals."""
    out, cur, depth, i, quote = [], '', 0, 0, None
    while i < len(s):
        c = s[i]
        if quote:
            cur += c
            if c == '\\' and i + 1 < len(s):
                cur += s[i + 1]
                i += 1
            elif c == quote:
                quote = None
        elif c in '"\'':
            quote = c
            cur += c
        elif c in '({[<':
            depth += 1
            cur += c
        elif c in ')}]>':
            depth -= 1
            cur += c
        elif depth == 0 and s.startswith(sep, i):
            out.append(cur)
            cur = ''
            i += len(sep)
            continue
        else:
            cur += c
        i += 1
    out.append(cur)
    return out


def match_paren(s, start):
    depth, i, quote = 0, start, None
    while i < len(s):
        c = s[i]
        if quote:
            if c == '\\':
                i += 1
            elif c == quote:
                quote = None
        elif c in '"\'':
            quote = c
        elif c == '(':
            depth += 1
        elif c == ')':
            depth -= 1
            if depth == 0:
                return i
        i += 1
    raise Fail(f'unbalanced parentheses in {s!r}', 'unbalanced')


def parse_signature(line):
    """'[prefix ][ret ][Owner::]name(params)[ cav][ override][ = init]' -> dict."""
    i = 0
    depth = 0
    while i < len(line) and not (line[i] == '(' and depth == 0):
        depth += line[i] == '<'
        depth -= line[i] == '>'
        i += 1
    if i >= len(line):
        raise Fail(f'no parameter list in {line!r}', 'no-params')
    close = match_paren(line, i)
    head, plist, tail = line[:i], line[i + 1:close], line[close + 1:]
    words = head.split(' ')
    prefix = None
    if words[0] in ('virtual', 'static', 'explicit'):
        prefix, words = words[0], words[1:]
    qname = words[-1]
    ret = ' '.join(words[:-1])
    owner, name = (qname.rsplit('::', 1) + [None])[:2] if '::' in qname else (None, qname)
    ps = []
    if plist.strip():
        for p in split_top(plist, ', '):
            parts = split_top(p, ' = ')
            decl = parts[0]
            default = ' = '.join(parts[1:]) if len(parts) > 1 else None
            t, _, n = decl.rpartition(' ')
            ps.append({'type': t, 'name': n, 'default': default})
    init = None
    parts = split_top(tail, ' = ')
    if len(parts) > 1:
        init = ' = '.join(parts[1:])
    quals = parts[0].split()
    override = 'override' in quals
    cav = ' '.join(q for q in quals if q != 'override')
    return {'prefix': prefix, 'ret': ret, 'owner': owner, 'name': name, 'params': ps, 'cav': cav,
            'override': override, 'init': init}


def expect(cond, msg, sig):
    if not cond:
        raise Fail(msg, sig)


def body_of(def_lines, contents, what):
    """Definition lines after the signature: ' {}' handled by the caller; here '{' ... '}'."""
    want = []
    from vf.props.c17 import split_ref
    for l in split_ref(contents):
        want.append(('    ' + l) if l.strip() else '')
    # the text block drops nothing: one line per contents line
    expect(def_lines[0] == '{' and def_lines[-1] == '}', f'{what}: body not framed by braces: '
           f'{def_lines!r}', 'body-braces')
    got = def_lines[1:-1]
    # the lines of the contents, in order, each shifted right by one common, non-empty indentation
    expect([g.strip() for g in got] == [w.strip() for w in want],
           f'{what}: body {got!r} != indented contents {want!r}', 'body-contents')
    expect(len({len(g) - len(g.lstrip()) - (len(w) - len(w.lstrip())) for g, w in zip(got, want)
                if g.strip()}) <= 1, f'{what}: body lines are not shifted uniformly: {got!r}',
           'body-indent')


def check_fn(desc):
    obj = mk(desc)
    check_rendered(desc, obj.as_decl, obj.as_def)
    # rendering is repeatable
    if (obj.as_decl, obj.as_def) != (obj.as_decl, obj.as_def):
        raise Fail('rendering twice gives different text', 'not-repeatable')


def check_rendered(desc, decl, dfn):
    what = desc['what']
    expect(decl.endswith(';\n') and decl.count('\n') == 1, f'declaration not one line: {decl!r}',
           'decl-shape')
    d = parse_signature(decl[:-2])
    sc = desc.get('scope')
    params = [p for p in desc.get('params', []) if p is not None]
    if what == 'function':
        name, owner = desc['name'], sc['name'] if sc else None
        ret = type_str(desc['ret'])
        prefix = {'member': None, 'static': 'static', 'virtual': 'virtual'}[desc['prefix']]
        cav, override = desc['cav'], desc['override']
    elif what == 'ctor':
        name, owner, ret = sc['name'], sc['name'], ''
        prefix = 'explicit' if desc['explicit'] else None
        cav, override = '', False
    else:
        name, owner, ret, prefix = '~' + sc['name'], sc['name'], '', None
        cav, override = '', desc['override']
    init = desc['init'] or None

    # --- the declaration against the description
    expect(d['name'] == name and d['owner'] is None, f'declared name {d!r}, want {name}', 'decl-name')
    expect(d['ret'] == ret, f'declared return type {d["ret"]!r}, want {ret!r}', 'decl-ret')
    expect(d['prefix'] == prefix, f'declared prefix {d["prefix"]!r}, want {prefix!r}', 'decl-prefix')
    expect(d['cav'] == cav, f'declared cav {d["cav"]!r}, want {cav!r}', 'decl-cav')
    expect(d['override'] == override, f'override flag {d["override"]}', 'decl-override')
    expect(d['init'] == init, f'initialisation {d["init"]!r}, want {init!r}', 'decl-init')
    expect(len(d['params']) == len(params), f'{len(d["params"])} declared params, want '
           f'{len(params)}: {decl!r}', 'decl-param-count')
    for got, p in zip(d['params'], params):
        expect(got['name'] == p['name'] and got['type'] == type_str(p['type']),
               f'declared param {got!r}, want {type_str(p["type"])} {p["name"]}', 'decl-param')
        expect(got['default'] == (p['type']['default'] or None),
               f'declared default {got["default"]!r}, want {p["type"]["default"]!r}', 'decl-default')

    # --- the definition
    if init is not None:
        expect(dfn == '', f'initialised declaration still has a definition: {dfn!r}', 'def-present')
        return
    expect(dfn.endswith('\n'), f'definition: {dfn!r}', 'def-shape')
    lines = dfn[:-1].split('\n')
    sig = lines[0]
    empty_body = not desc['contents'] and not desc.get('mil')
    if empty_body:
        expect(len(lines) == 1 and sig.endswith(' {}'), f'empty definition expected: {dfn!r}',
               'def-empty')
        sig = sig[:-3]
    f = parse_signature(sig)
    expect(f['name'] == name, f'defined name {f["name"]!r}, declared {name!r}', 'def-name')
    expect(f['owner'] == owner, f'definition qualified by {f["owner"]!r}, owner is {owner!r}',
           'def-owner')
    expect(f['ret'] == d['ret'], f'return types differ: {f["ret"]!r} vs {d["ret"]!r}', 'def-ret')
    expect(f['cav'] == d['cav'], f'qualifiers differ: {f["cav"]!r} vs {d["cav"]!r}', 'def-cav')
    expect(f['prefix'] is None and not f['override'] and f['init'] is None,
           f'prefix/override/initialisation on the definition: {sig!r}', 'def-extras')
    expect([(p['type'], p['name']) for p in f['params']] ==
           [(p['type'], p['name']) for p in d['params']],
           f'parameter lists differ: {sig!r} vs {decl!r}', 'def-params')
    expect(all(p['default'] is None for p in f['params']), f'default value on the definition: '
           f'{sig!r}', 'def-default')
    if not empty_body:
        rest = lines[1:]
        if desc.get('mil'):
            mil = desc['mil']
            want = ['    : ' + mil[0]] + ['    , ' + m for m in mil[1:]]
            expect(rest[:len(mil)] == want, f'member initialiser list {rest[:len(mil)]!r} != '
                   f'{want!r}', 'def-mil')
            rest = rest[len(mil):]
        if desc['contents']:
            body_of(rest, desc['contents'], what)
        else:
            expect(rest == ['{', '}'], f'empty body expected, got {rest!r}', 'def-body')


# ---- (a2) the descriptions are plain mutable dataclasses: render, change a field, render again

def check_rerender(case):
    """Build the objects of `first`, render them, then update them in place to `second` (same
    kind) and check the rendering against `second` - nothing of the first rendering may stick."""
    first, second = case['first'], case['second']
    obj = mk(first)
    _ = obj.as_decl, obj.as_def  # first rendering
    params2 = [p for p in second.get('params', [])]
    olds = list(getattr(obj, 'params', []))
    news = []
    for i, pd in enumerate(params2):
        if pd is None:
            news.append(None)
        elif i < len(olds) and olds[i] is not None:
            po = olds[i]  # reuse the already rendered Param object, updated in place
            po.type_desc = mk_type(pd['type'])
            po.name = pd['name']
            news.append(po)
        else:
            news.append(mk_param(pd))
    if first['what'] == 'function':
        fresh = mk(second)
        obj.return_type, obj.name, obj.params = fresh.return_type, fresh.name, news
        obj.prefix, obj.cav, obj.override = fresh.prefix, fresh.cav, fresh.override
        obj.initialization, obj.contents, obj.scope = fresh.initialization, fresh.contents, fresh.scope
    elif first['what'] == 'ctor':
        fresh = mk(second)
        obj.scope, obj.explicit, obj.params = fresh.scope, fresh.explicit, news
        obj.initialization, obj.member_initlist, obj.contents = \
            fresh.initialization, fresh.member_initlist, fresh.contents
    else:
        fresh = mk(second)
        obj.scope, obj.override = fresh.scope, fresh.override
        obj.initialization, obj.contents = fresh.initialization, fresh.contents
    check_rendered(second, obj.as_decl, obj.as_def)
    # a copy of a rendered parameter that is renamed must render under its new name
    import copy
    for pd in [p for p in first.get('params', []) if p]:
        orig = mk_param(pd)
        _ = orig.as_decl, orig.as_def
        dup = copy.deepcopy(orig)
        dup.name = pd['name'] + '_2'
        if not dup.as_def.endswith(' ' + pd['name'] + '_2') or \
                (' ' + pd['name'] + '_2') not in dup.as_decl:
            raise Fail(f'a renamed copy of a rendered parameter still renders as {dup.as_def!r} / '
                       f'{dup.as_decl!r}', 'stale-param-rendering')


# ---- (b) containers

block_lines = st.lists(st.sampled_from(['int a;', '', '  indented();', 'void f();', '// c', '{', '}',
                                        'struct X {};', 'namespace q {}']), max_size=5)


def check_containers(case):
    from dznpy.cpp_gen import (AccessSpecifiedSection, AccessSpecifier, Class, MemberVariable,
                               Namespace, ProjectIncludes, Struct, SystemIncludes)
    from dznpy.scoping import NamespaceIds
    from dznpy.text_gen import TextBlock
    body = list(case['lines'])
    ids = list(case['ns'])
    kind = case.get('contents_kind', 'plain') if body else 'plain'

    def mk_contents():
        # contents whose string form is more than its raw lines: a comment block, a block with a
        # header; "unchanged contents" = the lines the contents render on their own
        from dznpy.cpp_gen import Comment
        if kind == 'comment':
            return Comment(list(body))
        if kind == 'headed':
            return TextBlock(list(body), header=['// contents header', '#define IN_HEADER 1'])
        if kind == 'nested':
            return TextBlock([TextBlock(list(body)), Comment('tail comment'), 'int tail_;'])
        return TextBlock(list(body))
    alone = str(mk_contents())
    inner = alone[:-1].split('\n') if alone else []
    if kind == 'plain':
        expect(inner == body, f'plain contents render {inner!r}', 'contents-self')
    ns = Namespace(NamespaceIds(ids), mk_contents() if case['ctor_contents'] else None)
    if not case['ctor_contents']:
        ns.contents = mk_contents()
    out = str(ns)
    lines = out[:-1].split('\n') if out else []
    label = (' ' + '::'.join(ids)) if ids else ''
    if body:
        expect(lines[0] == f'namespace{label} {{', f'namespace head {lines[:1]!r}', 'ns-head')
        expect(lines[-1] == f'}} // namespace{label}', f'namespace tail {lines[-1:]!r}', 'ns-tail')
        expect(lines[1:-1] == inner, f'namespace contents ({kind}) changed: {lines[1:-1]!r} vs '
               f'{inner!r}', 'ns-contents')
    else:
        expect(lines == [f'namespace{label} {{}}'], f'empty namespace: {lines!r}', 'ns-empty')
    # containers constructed without contents and filled in place are independent of each other
    first, second = Namespace(NamespaceIds(ids)), Namespace(NamespaceIds(['Other']))
    first.contents.append(list(body) or ['int z;'])
    expect(str(second) == 'namespace Other {}\n', f'a namespace constructed without contents renders '
           f'{str(second)!r} after another one was filled in place', 'ns-shared-default')
    s1, s2 = Struct('S1'), Struct('S2')
    s1.contents.append('int a;')
    expect(str(s2) == 'struct S2\n{\n};\n', f'struct without contents renders {str(s2)!r} after '
           f'another one was filled in place', 'struct-shared-default')
    for cls, kw in ((Struct, 'struct'), (Class, 'class')):
        if case['ctor_contents']:
            s = cls(case['name'], mk_contents())
        else:
            s = cls(case['name'])
            s.contents = mk_contents()
        out = str(s)
        lines = out[:-1].split('\n')
        expect(lines[0] == f'{kw} {case["name"]}' and lines[1] == '{' and lines[-1] == '};',
               f'{kw} frame: {lines!r}', 'struct-frame')
        expect(lines[2:-1] == inner, f'{kw} contents ({kind}) changed: {lines[2:-1]!r} vs '
               f'{inner!r}', 'struct-contents')
        expect(str(s) == out, f'{kw} renders differently the second time', 'struct-rerender')
    for spec in AccessSpecifier:
        sec = str(AccessSpecifiedSection(spec, TextBlock(list(body))))
        lines = sec[:-1].split('\n') if sec else []
        head = [spec.value] if spec.value else []
        want = head + [('    ' + l) if l.strip() else '' for l in body]
        expect(lines == want, f'section {spec.name}: {lines!r} != {want!r}', 'section')
    incs = list(case['includes'])
    for cls, o, c, word in ((SystemIncludes, '<', '>', 'System'), (ProjectIncludes, '"', '"',
                                                                  'Project')):
        out = str(cls(list(incs)))
        lines = out[:-1].split('\n') if out else []
        expect(lines[1:] == [f'#include {o}{i}{c}' for i in incs] and lines[0].startswith('// ')
               and word in lines[0], f'includes: {lines!r}', 'includes')
    mv = str(MemberVariable(mk_type(case['mv_type']), case['mv_name']))
    expect(mv == f'{type_str(case["mv_type"])} {case["mv_name"]};', f'member variable {mv!r}',
           'member-var')


# ---- (c) compositions through the compiler

VAL_TYPES = [('int', None), ('double', None), ('std.string', None), ('std.vector', 'int'),
             ('P0', None), ('Q.P1', None)]


@st.composite
def cxx_type(draw, allow_void=False):
    if allow_void and draw(st.integers(0, 3)) == 0:
        return {'fqn': {'ids': ['void'], 'root': False}, 'tpl': None, 'postfix': '', 'const': False,
                'default': ''}
    base, tpl = draw(st.sampled_from(VAL_TYPES))
    root = base in ('P0', 'Q.P1') and draw(st.booleans())
    return {'fqn': {'ids': (['vt'] if base in ('P0', 'Q.P1') else []) + base.split('.'),
                    'root': root},
            'tpl': {'ids': [tpl], 'root': False} if tpl else None,
            'postfix': draw(st.sampled_from(['', '', '&', '*'])), 'const': draw(st.booleans()),
            'default': ''}


@st.composite
def cxx_param(draw, idx, allow_default):
    t = draw(cxx_type())
    if allow_default and draw(st.booleans()):
        if t['postfix'] == '*':
            t['default'] = 'nullptr'
        elif t['postfix'] == '' or t['const']:
            t['default'] = '{}' if t['fqn']['ids'] != ['int'] else draw(st.sampled_from(['3', '{}']))
    return {'type': t, 'name': f'p{idx}'}


@st.composite
def cxx_params(draw):
    n = draw(st.integers(0, 4))
    out, allow = [], True
    # defaults must be trailing: decide from the back
    flags = []
    for _ in range(n):
        allow = allow and draw(st.booleans())
        flags.append(allow)
    flags.reverse()
    for i in range(n):
        out.append(draw(cxx_param(i, flags[i])))
    # a parameter without default after one with default is ill-formed: clear defaults before the
    # last default-less parameter
    last_plain = max([i for i, p in enumerate(out) if not p['type']['default']] + [-1])
    for p in out[:last_plain]:
        p['type']['default'] = ''
    return out


def body_for(t):
    if t['fqn']['ids'] == ['void'] and not t['postfix']:
        return ''
    if t['postfix'] == '&':
        base = dict(t, postfix='', const=False)
        return f'static {type_str(base)} v{{}};\nreturn v;'
    return 'return {};'


@st.composite
def cxx_class(draw, idx):
    name = f'C{idx}'
    sc = {'cls': draw(st.booleans()), 'name': name}
    members = []
    for k in range(draw(st.integers(0, 3))):
        t = draw(cxx_type())
        t.update(postfix='' if t['postfix'] == '&' else t['postfix'], const=False)
        members.append({'type': t, 'name': f'm_{k}'})
    fns = []
    for k in range(draw(st.integers(0, 4))):
        ret = draw(cxx_type(allow_void=True))
        prefix = draw(st.sampled_from(['member', 'member', 'static', 'virtual']))
        cav = '' if prefix == 'static' else draw(st.sampled_from(CAVS))
        init = '0' if prefix == 'virtual' and draw(st.integers(0, 2)) == 0 else ''
        # every second member function is named after its class (C0reset: the name starts with it)
        fns.append({'what': 'function', 'ret': ret, 'name': f'{name}reset{k}' if k % 2 else f'fn{k}',
                    'params': draw(cxx_params()), 'prefix': prefix, 'cav': cav, 'override': False, 'init': init,
                    'contents': '' if init else body_for(ret), 'scope': sc})
    ctors = []
    kind = draw(st.sampled_from(['none', 'default', 'delete', 'custom', 'custom']))
    if kind in ('default', 'delete'):
        ctors.append({'what': 'ctor', 'scope': sc, 'explicit': False, 'params': [], 'init': kind,
                      'mil': [], 'contents': ''})
    elif kind == 'custom':
        ps = draw(cxx_params())
        # a constructor whose parameters all have defaults is a default constructor: fine
        mil = [f'{m["name"]}{{}}' for m in members if draw(st.booleans())]
        ctors.append({'what': 'ctor', 'scope': sc, 'explicit': draw(st.booleans()),
                      'params': ps + ([None] if draw(st.booleans()) else []), 'init': '', 'mil': mil,
                      'contents': draw(st.sampled_from(['', 'int local = 0;\n(void)local;']))})
    dtor = None
    if draw(st.booleans()):
        init = draw(st.sampled_from(['', 'default']))
        dtor = {'what': 'dtor', 'scope': sc, 'override': False, 'init': init,
                'contents': '' if init else draw(st.sampled_from(['', '// bye']))}
    has_virtual = any(f['prefix'] == 'virtual' for f in fns)
    if has_virtual and dtor is None:
        dtor = {'what': 'dtor', 'scope': sc, 'override': False, 'init': 'default', 'contents': ''}
    return {'scope': sc, 'members': members, 'fns': fns, 'ctors': ctors, 'dtor': dtor,
            'virtual_dtor': has_virtual}


@st.composite
def cxx_unit(draw, n_classes):
    ns = draw(st.sampled_from([[], ['N'], ['My', 'Project'], ['a', 'b', 'c']]))
    classes = [draw(cxx_class(i)) for i in range(n_classes)]
    free = []
    for k in range(draw(st.integers(0, 3))):
        ret = draw(cxx_type(allow_void=True))
        free.append({'what': 'function', 'ret': ret, 'name': f'free{k}', 'params': draw(cxx_params()),
                     'prefix': 'member', 'cav': '', 'override': False, 'init': '',
                     'contents': body_for(ret), 'scope': None})
    return {'ns': ns, 'classes': classes, 'free': free}


PRELUDE = '''#include <string>
#include <vector>
namespace vt { struct P0 { int v; }; namespace Q { struct P1 { double d; }; } }
'''


def render_unit(unit):
    from dznpy.cpp_gen import (AccessSpecifiedSection, AccessSpecifier, Class, MemberVariable,
                               Namespace, Struct, SystemIncludes)
    from dznpy.scoping import NamespaceIds
    from dznpy.text_gen import TextBlock
    decls, defs = [], []
    for c in unit['classes']:
        sc = c['scope']
        pub, defs_c = [], []
        for d in c['ctors'] + ([c['dtor']] if c['dtor'] else []) + c['fns']:
            obj = mk(d)
            decl = obj.as_decl
            if d['what'] == 'dtor' and c['virtual_dtor']:
                decl = 'virtual ' + decl
            pub.append(decl)
            if obj.as_def:
                defs_c.append(obj.as_def)
        priv = [str(MemberVariable(mk_type(dict(m['type'], default='')), m['name']))
                for m in c['members']]
        cls = (Class if sc['cls'] else Struct)(sc['name'])
        cls.contents = TextBlock([
            AccessSpecifiedSection(AccessSpecifier.PUBLIC, TextBlock(pub)),
            AccessSpecifiedSection(AccessSpecifier.PRIVATE, TextBlock(priv))])
        decls.append(str(cls))
        defs.extend(defs_c)
    for f in unit['free']:
        obj = mk(f)
        decls.append(obj.as_decl)
        defs.append(obj.as_def)
    ids = NamespaceIds(list(unit['ns']))
    header = str(TextBlock([SystemIncludes(['string', 'vector']), Namespace(ids, TextBlock(decls))]))
    source = str(Namespace(ids, TextBlock(defs)))
    return PRELUDE + header + '\n// ---- source part\n' + source


def compile_text(text, workdir, tag):
    path = os.path.join(workdir, f'{tag}.cc')
    with open(path, 'w', encoding='utf-8') as fh:
        fh.write(text)
    r = subprocess.run(['g++', '-std=c++17', '-fsyntax-only', '-Wall', '-Wno-unused', '-Werror=return-type',
                        path], capture_output=True, text=True, timeout=300, check=False)
    return r.returncode, r.stderr


def first_error(stderr):
    for line in stderr.splitlines():
        if ' error: ' in line:
            return line.split(' error: ', 1)[1][:200]
    return stderr.strip().splitlines()[0][:160] if stderr.strip() else 'compiler failed'


def norm_diag(msg):
    """Compiler diagnostic without the quoted program text (stable signature)."""
    import re
    return re.sub(r'\s+', '_', re.sub(r'[‘\'][^’\']*[’\']', '*', msg))[:70]


def check_unit(unit, workdir=None):
    own = workdir is None
    workdir = workdir or tempfile.mkdtemp(prefix='vf_c20_')
    try:
        rc, err = compile_text(render_unit(unit), workdir, 'unit')
        if rc != 0:
            raise Fail('g++ rejects a composition of cpp_gen blocks: ' + first_error(err) + '\n' +
                       err[:1500], 'compile:' + norm_diag(first_error(err)))
    finally:
        if own:
            shutil.rmtree(workdir, ignore_errors=True)


def run_compile_clause(ctx, n_units, per_unit):
    """Units are drawn by Hypothesis (generate phase only), compiled in parallel; a failing unit
    is reduced to single classes / free functions before it is reported."""
    name = 'compile'
    ctx.clauses_run.append(name)
    if ctx.replay is not None:
        if ctx.replay.get('clause') == name:
            ctx._run_one(name, check_unit, ctx.replay['case'])  # pylint: disable=protected-access
        return
    if shutil.which('g++') is None:
        raise HarnessError('g++ not found')
    from vf.draw import draw_cases
    units = draw_cases(cxx_unit(per_unit), n_units, ctx.seed)
    work = tempfile.mkdtemp(prefix='vf_c20_')
    try:
        def job(iu):
            i, u = iu
            d = os.path.join(work, f'u{i}')
            os.makedirs(d)
            try:
                check_unit(u, d)
                return None
            except Fail as f:
                return f
        with ThreadPoolExecutor(max_workers=min(16, os.cpu_count() or 4)) as ex:
            results = list(ex.map(job, enumerate(units)))
        for u, res in zip(units, results):
            for c in u['classes']:
                small = {'ns': u['ns'], 'classes': [c], 'free': []}
                nt = any(len([p for p in f['params'] if p]) >= 2 and
                         any(p['type']['default'] for p in f['params'] if p) for f in c['fns'])
                ctx.record(small, nt, ['compiled-class'])
            if res is None:
                continue
            # reduce: which single class / free function reproduces a failure?
            reported = False
            parts = [{'ns': u['ns'], 'classes': [c], 'free': []} for c in u['classes']] + \
                    [{'ns': u['ns'], 'classes': [], 'free': [f]} for f in u['free']]
            for k, small in enumerate(parts):
                try:
                    d = os.path.join(work, f'r{id(u)}_{k}')
                    os.makedirs(d, exist_ok=True)
                    check_unit(small, d)
                except Fail as f:
                    ctx.add_violation(name, f, small)
                    reported = True
                    break
            if not reported:
                ctx.add_violation(name, res, u)
    finally:
        shutil.rmtree(work, ignore_errors=True)
    # one violation per signature
    seen, keep = set(), []
    for v in ctx.violations:
        if v['sig'] not in seen:
            seen.add(v['sig'])
            keep.append(v)
    ctx.violations[:] = keep


def nontrivial_fn(d):
    ps = [p for p in d.get('params', []) if p]
    return len(ps) >= 2 and any(p['type']['default'] for p in ps) and d.get('scope') is not None


def labels_fn(d):
    out = [d['what']]
    if d.get('init'):
        out.append('init=' + d['init'])
    if d.get('scope'):
        out.append('owned')
    if d.get('cav'):
        out.append('cav')
    if d.get('contents'):
        out.append('body')
    if d.get('mil'):
        out.append('mil')
    return out


def run(ctx):
    n = ctx.n(1800, 300000)
    ctx.clause('function', function_desc(), check_fn, n, nontrivial=nontrivial_fn, labels=labels_fn)
    ctx.clause('constructor', ctor_desc(), check_fn, max(1, n // 3), nontrivial=nontrivial_fn,
               labels=labels_fn)
    ctx.clause('destructor', dtor_desc(), check_fn, max(1, n // 10), nontrivial=lambda d: False,
               labels=labels_fn)
    same_kind = st.one_of(st.tuples(function_desc(), function_desc()), st.tuples(ctor_desc(), ctor_desc()),
                          st.tuples(dtor_desc(), dtor_desc()))
    ctx.clause('rerender', same_kind.map(lambda t: {'first': t[0], 'second': t[1]}), check_rerender,
               max(1, n // 3), nontrivial=lambda c: nontrivial_fn(c['second']),
               labels=lambda c: ['rerender-' + c['first']['what']])
    ctx.clause('containers', st.fixed_dictionaries({
        'lines': block_lines, 'ns': st.lists(st.sampled_from(IDS), max_size=3),
        'ctor_contents': st.booleans(), 'name': st.sampled_from(['MyStruct', 'S', 'x_1']),
        'contents_kind': st.sampled_from(['plain', 'plain', 'comment', 'headed', 'nested']),
        'includes': st.lists(st.sampled_from(['string', 'dzn/pump.hh', 'A/B.h', 'x.hh']),
                             max_size=3),
        'mv_type': typedesc, 'mv_name': st.sampled_from(['m_x', 'myPort', '_v'])}),
        check_containers, max(1, n // 3), nontrivial=lambda c: len(c['lines']) >= 2,
        labels=lambda c: ['containers', 'ns-ids=%d' % len(c['ns']),
                          'contents-' + (c['contents_kind'] if c['lines'] else 'plain')])
    if ctx.shard is None or ctx.shard[0] == 0:
        run_compile_clause(ctx, 16 if ctx.quick else 200, 12 if ctx.quick else 50)
