"""C06 - generated files form valid, self-contained C++ for every model and configuration."""
import copy
import os
import re
import shutil
import tempfile
from concurrent.futures import ThreadPoolExecutor

from hypothesis import strategies as st

from vf import gen_cfg
from vf.cxx import driver, farm
from vf.runner import Fail, HarnessError

RULE = ('Hypothesis draws (shell model, configuration, inclusion order) triples: models incl. '
        'global-namespace encapsulee, empty interface, no ports, multi-client; support-file prefixes '
        'None / 1-3 ids. Compiler and linker are the oracle (g++ 12 and clang++ 14, -std=c++17, mock '
        'Dezyne runtime): (a) every returned header compiles on its own; (b) one TU that includes '
        'every header twice in a drawn permutation plus a diamond; (c) every quoted include names a '
        'returned file or the model header; (d) main.cc - another TU - constructs the shell, binds '
        'and final-constructs it, touches every public member, links against <shell>.cc and runs; '
        '(e) two shells generated with different prefixes live in one program. Non-trivial: a case '
        'with >= 1 MTS port or a multi-client port; distinct by hash of (model, spec).')
ASSUMPTIONS = ['mock runtime reflects the Dezyne 2.17 API as used by the generated code',
               'mock model header reflects how `dzn code` lays out interfaces / enums',
               '<basename><suffix> does not collide with a declaration of the encapsulee namespace',
               'identifiers exclude C++ keywords and the names the generator introduces itself '
               '(m_encapsulee, identifier, port, r, lockAndData, ...), port names differing only in '
               'the case of the first letter are not generated (see known findings)']

INCLUDE = re.compile(r'^\s*#\s*include\s*"([^"]+)"', re.M)


def fail_build(exc, what):
    m = re.search(r'static assertion failed: ([^\n]*)', exc.output)
    if m:  # a compile-time expectation of the driver about the generated shell does not hold
        raise Fail(f'{what}: static_assert failed: {m.group(1)}\n{exc.output[:1500]}',
                   'static-assert:' + re.sub(r'\s+', '_', re.sub(r' of (multi-client )?port .*', '', m.group(1))))
    m = re.search(r'struct [\w:]+. has no member named .((?:ProvidesMultiClient|Provides|Requires)\w+)',
                  exc.output)
    if m and exc.owner == 'harness:main.cc':
        # the driver addresses every exposed port through its accessor: the shell lacks one
        raise Fail(f'{what}: the generated shell has no accessor {m.group(1)}() although the port is '
                   f'exposed\n{exc.output[:1200]}', 'missing-accessor')
    if exc.owner.startswith('harness'):
        raise HarnessError(f'{what}: error in harness-owned file ({exc.owner}): {exc}\n'
                           f'{exc.output[:3000]}')
    raise Fail(f'{what}: {exc}\n{exc.output[:2500]}',
               f'{what.split(":")[0]}:{farm.norm_diag(farm.first_diag(exc.output))}')


def check_case(case, workdir=None):  # pylint: disable=too-many-branches,too-many-locals
    sm, spec, sem = case['sm'], case['spec'], case['semantics']
    pr = farm.Project(sm, spec, sem, workdir)
    try:
        try:
            files = pr.generate()
        except Exception as exc:  # pylint: disable=broad-except
            raise Fail(f'valid model/configuration rejected by the builder: {type(exc).__name__}: '
                       f'{exc}', f'rejected:{type(exc).__name__}') from None
        names = [f[0] for f in files]
        headers = [n for n in names if n.endswith('.hh')]
        model_hh = driver.base_name(spec) + '.hh'
        # (c) quoted includes
        for fn, contents, _ in files:
            for inc in INCLUDE.findall(contents):
                if inc not in names and inc != model_hh:
                    raise Fail(f'{fn} includes "{inc}", which is neither a returned file nor the '
                               f'model header {model_hh}', 'include-unknown')
        # (a) every header on its own, both compilers
        for hdr in headers:
            for cc in ('g++', 'clang++-14'):
                rc, out = pr.syntax_only(hdr, compiler=cc, lang_header=True)
                if rc != 0:
                    raise Fail(f'{hdr} does not compile on its own with {cc}: '
                               f'{farm.first_diag(out)}\n{out[:2000]}',
                               'standalone:%s:%s' % (
                                   'shell.hh' if hdr == driver.shell_name(spec) + '.hh' else
                                   hdr.split('_')[-1], farm.norm_diag(farm.first_diag(out))))
        # (b) multiple inclusion, drawn order, diamond
        order = [headers[i % len(headers)] for i in case['order']] or headers
        pr.write('dia_a.hh', f'#include "{driver.shell_name(spec)}.hh"\n')
        pr.write('dia_b.hh', f'#include "{driver.shell_name(spec)}.hh"\n#include "dia_a.hh"\n')
        tu = ''.join(f'#include "{h}"\n' for h in order + headers + headers) + \
            '#include "dia_a.hh"\n#include "dia_b.hh"\nint main() { return 0; }\n'
        rc, out = pr.syntax_only(tu, is_file=False)
        if rc != 0:
            raise Fail('a translation unit that includes the returned headers more than once does '
                       f'not compile: {farm.first_diag(out)}\n{out[:2000]}',
                       'multi-include:' + farm.norm_diag(farm.first_diag(out)))
        # (d) separate translation unit, link, run (cases without a cross-prefix part: a companion
        # shell of the other facilities origin is linked into the same program, ahead of this one)
        if not case.get('cross'):
            pr.add_twin()
        try:
            exe = pr.build_driver()
        except farm.BuildError as exc:
            fail_build(exc, 'separate-tu: main.cc + shell source')
        imp = int(spec['origin'] == 'IMPORT')
        script = [f'locator {imp} {imp} 1 0', 'construct inst']
        if spec.get('mc'):
            script += ['client B -', 'client A -']  # descending registration order
        script += ['bind -', 'final 1', 'touch', 'addr']
        rc, trace, err = pr.run_driver(exe, script)
        notes = [t.get('what') for t in trace if t.get('k') == 'note']
        if rc != 0 or 'final-ok' not in notes or 'touched' not in notes or 'end' not in notes:
            raise Fail(f'the program built from the generated files does not run to completion: '
                       f'exit {rc}, notes {notes}, stderr {err[:600]}', 'run-failed')
        # (e) a second shell with another support prefix in the same program
        if case.get('cross'):
            spec2 = copy.deepcopy(spec)
            spec2['prefix'] = case['cross']
            spec2['suffix'] = spec['suffix'] + 'Other'
            pr2 = farm.Project(sm, spec2, sem, pr.dir)
            try:
                pr2.generate()  # writes its files next to the first set (model header identical)
            except Exception as exc:  # pylint: disable=broad-except
                raise Fail(f'second prefix rejected: {exc}', 'rejected-2') from None
            s1, s2 = driver.shell_name(spec), driver.shell_name(spec2)
            i1, i2 = pr.info, pr2.info
            a1 = 'user_loc, ' + ('log1, ' if spec.get('mc') else '')
            a2 = 'user_loc, ' + ('log2, ' if spec.get('mc') else '')
            both = [f'#include "{s1}.hh"', f'#include "{s2}.hh"']
            both += [f'#include "{n}"' for n in [f[0] for f in pr2.files if f[0].endswith('.hh')]]
            both += [f'#include "{n}"' for n in headers]
            both += ['int main() {', '  dzn::locator user_loc; dzn::pump pu; dzn::runtime rt;']
            if spec['origin'] == 'IMPORT':
                both.append('  user_loc.set(pu).set(rt);')
            if spec.get('mc'):
                both.append(f'  {i1.sns}::ILog log1; {i2.sns}::ILog log2;')
            both += [f'  {i1.shell} one({a1}"one"); {i2.shell} two({a2}"two");',
                     '  (void)one; (void)two; return 0;', '}']
            pr.write('both.cc', '\n'.join(both) + '\n')
            try:
                pr.compile([s1 + '.cc', s2 + '.cc', 'both.cc'], 'both')
            except farm.BuildError as exc:
                fail_build(exc, 'cross-prefix: two shells with different support prefixes')
            rc, _so, se = farm.run_cmd([os.path.join(pr.dir, 'both')], pr.dir, timeout=60)
            if rc != 0:
                raise Fail(f'cross-prefix program exits with {rc}: {se[:500]}', 'cross-run')
    finally:
        pr.cleanup()


def labels(case):
    spec, sm = case['spec'], case['sm']
    out = ['mc' if spec.get('mc') else 'no-mc', spec['origin'],
           'prefix=%d' % len(spec['prefix'] or [])]
    if len(sm['enc']) == 1:
        out.append('global-ns-encapsulee')
    if 'MTS' in case['semantics'].values():
        out.append('has-mts')
    if not case['semantics']:
        out.append('no-ports')
    if case.get('cross'):
        out.append('cross-prefix')
    if spec.get('_prior'):
        out.append('after-%d-earlier-builds' % len(spec['_prior']))
    return out + ['feat:' + f for f in sm.get('features', []) if f in ('empty_itf', 'system_enc',
                                                                       'multi_id_ns')]


def nontrivial(case):
    return bool(case['spec'].get('mc')) or 'MTS' in case['semantics'].values()


def strata():
    return [gen_cfg.model_and_spec(),
                     gen_cfg.model_and_spec(want_mc=True),
                     gen_cfg.model_and_spec(force=['global_enc']),
                     gen_cfg.model_and_spec(force=['empty_itf', 'many_ports'], want_mixed=True),
                     gen_cfg.model_and_spec(force=['no_ports']),
                     gen_cfg.model_and_spec(force=['shadow_ns'], want_mc=True),
                     gen_cfg.model_and_spec(force=['shadow_ns', 'nested_enum', 'many_ports']),
                     gen_cfg.model_and_spec(force=['many_provides'], want_mc=True),
                     gen_cfg.model_and_spec(force=['prefix_ns', 'deep_ns'], shadow=True),
                     gen_cfg.model_and_spec(force=['deep_ns', 'same_name_siblings'], shadow=True),
                     gen_cfg.model_and_spec(force=['deep_ns', 'ref_extern', 'prefix_ports'], want_mc=True),
                     gen_cfg.model_and_spec(force=['global_enc'], want_mc=True),
                     gen_cfg.model_and_spec(force=['repeat_ns', 'many_ports'], want_mixed=True),
                     # names drawn from the literals of the code under test
                     gen_cfg.model_and_spec(force=['dict_names', 'many_ports'], want_mixed=True),
                     gen_cfg.model_and_spec(force=['dict_names', 'deep_ns'], want_mc=True),
                     gen_cfg.model_and_spec(force=['big'], want_mc=True, want_mixed=True),
                     # the same relative type name denoting different externs from two interfaces,
                     # every port multi-threaded
                     gen_cfg.model_and_spec(force=['mirror_ns', 'many_ports'], prov_sem='MTS', want_mixed='M'),
                     gen_cfg.model_and_spec(force=['one_way_itf', 'many_ports'], prov_sem='MTS',
                                            want_mixed='MS'),
                     # inout formals on out events (accepted by the parser): compile-only oracle
                     gen_cfg.model_and_spec(force=['out_inout', 'many_requires'], want_mixed='MS')]


def with_order(base):
    return st.tuples(base, st.lists(st.integers(0, 20), min_size=3, max_size=10),
                     st.sampled_from([None, None, ['Other'], ['P', 'Q']])).map(
        lambda t: {**t[0], 'order': t[1], 'cross': t[2] if t[2] != t[0]['spec']['prefix'] else None})


def run_cases(ctx, name, cases, check, minimise=True):
    """Shared by the compile-based checks: run cases on 16 threads, bucket failures by signature."""
    from vf.runner import short
    for case in cases[:2]:  # written-out (model, configuration) cases for the evidence
        if isinstance(case, dict) and 'sm' in case:
            ctx.samples.insert(0, short({k: v for k, v in case.items() if k != 'histories'}, 4000))
    work = tempfile.mkdtemp(prefix=f'vf_{ctx.prop.lower()}_')
    results = []
    try:
        def job(ic):
            i, case = ic
            d = os.path.join(work, f'c{i}')
            os.makedirs(d)
            try:
                check(case, d)
                return None
            except Fail as f:
                return f
            except HarnessError:
                # names drawn from the literals of the tree under test may collide with the harness'
                # own C++ or with a system header (a namespace called `select`): no verdict for
                # such a case, it is counted; anything else stays a harness error
                if isinstance(case, dict) and 'dict_names' in (case.get('sm') or {}).get('features', []):
                    ctx.inconclusive['dictionary-named model collides with harness / system header'] += 1
                    return None
                raise
            finally:
                shutil.rmtree(d, ignore_errors=True)
        with ThreadPoolExecutor(max_workers=min(16, os.cpu_count() or 4)) as ex:
            results = list(ex.map(job, enumerate(cases)))
    finally:
        shutil.rmtree(work, ignore_errors=True)
    seen = set()
    for case, res in zip(cases, results):
        if res is None:
            continue
        sig = f'{name}:{res.sig or "oracle"}'
        if sig in seen:
            ctx.excluded[sig] += 1
            continue
        seen.add(sig)
        small = case
        if minimise and 'sm' in case and not (res.sig or '').startswith('harness'):
            small = shrink_case(ctx, case, check, res.sig)
        ctx.add_violation(name, res, small)


def shrink_case(ctx, case, check, sig):
    """Delta-debug the (model, configuration) of a failing case; keeps the case-specific extras."""
    from vf import minimise as mini
    work = tempfile.mkdtemp(prefix=f'vf_{ctx.prop.lower()}_min_')
    counter = [0]

    def same_failure(cand):
        counter[0] += 1
        d = os.path.join(work, f'm{counter[0]}_{id(cand)}')
        os.makedirs(d, exist_ok=True)
        try:
            check(cand, d)
            return False
        except Fail as f:
            return f.sig == sig
        except Exception:  # pylint: disable=broad-except
            return False
        finally:
            shutil.rmtree(d, ignore_errors=True)
    try:
        return mini.shrink(case, same_failure, rounds=5 if ctx.quick else 30)
    finally:
        shutil.rmtree(work, ignore_errors=True)


# ---- known findings: identifiers of the model that collide with identifiers the generator introduces

def _collision_cases():
    def ev(name, d, ret, formals):
        return {'name': name, 'dir': d, 'ret': ret,
                'formals': [{'name': n, 'type': ['Info'], 'dir': fd} for n, fd in formals]}

    def port(n, t, d):
        return {'name': n, 'type': [t], 'dir': d, 'injected': False}

    def base(ports, itfs, mc=None):
        model = {'root': [{'k': 'extern', 'name': ['Info'], 'value': '::xt::T0'},
                          {'k': 'enum', 'name': ['Result'], 'fields': ['Ok', 'Fail']}], 'wd': '/w'}
        for iname, evs in itfs.items():
            model['root'].append({'k': 'interface', 'name': [iname], 'types': [], 'events': evs})
        model['root'].append({'k': 'ns', 'ids': ['My'], 'elems': [
            {'k': 'component', 'name': ['Toaster'], 'ports': ports}]})
        spec = {'filename': '/x/Toaster.dzn', 'suffix': 'Shell', 'enc': ['My', 'Toaster'],
                'prov': {'sts': 'NONE', 'mts': 'ALL'}, 'req': {'sts': 'NONE', 'mts': 'ALL'}, 'mc': mc,
                'origin': 'CREATE', 'copyright': 'c', 'creator': None, 'prefix': None}
        return {'sm': {'model': model, 'enc': ['My', 'Toaster'], 'enc_kind': 'component',
                       'features': []}, 'spec': spec,
                'semantics': {p['name']: 'MTS' for p in ports}, 'order': [0, 1, 2], 'cross': None}
    out = {'ports-api-Api': base([port('api', 'IA', 'provides'), port('Api', 'IA', 'provides')],
                                 {'IA': [ev('Do', 'in', ['void'], []), ev('Done', 'out', ['void'], [])]})}
    for nm in ('r', 'identifier', 'lockAndData', 'm_dispatcher', 'm_encapsulee'):
        itfs = {'IA': [ev('Claim', 'in', ['Result'], [(nm, 'in')]),
                       ev('Release', 'in', ['void'], [(nm, 'inout')]),
                       ev('Other', 'in', ['void'], [(nm, 'out')]), ev('Ev', 'out', ['void'], [(nm, 'in')])],
                'IB': [ev('On', 'in', ['void'], [(nm, 'in')]), ev('Trip', 'out', ['void'], [(nm, 'in')])]}
        out['formal-' + nm] = base([port('api', 'IA', 'provides'), port('hw', 'IB', 'requires')], itfs,
                                   mc={'port': 'api', 'claim': 'Claim', 'grant': ['Ok'],
                                       'release': 'Release'})
    return out


def run_collisions(ctx):
    """Six fixed inputs that are well-formed Dezyne but whose identifiers collide with names the
    generator introduces.  They are genuine defects recorded in known_findings.txt (not repaired: the
    repair is a naming scheme, not a small patch) and excluded from the generators; this clause keeps
    them visible and notices when one of them starts to fail differently."""
    name = 'identifier_collisions'
    ctx.clauses_run.append(name)
    cases = _collision_cases()
    if ctx.replay is not None:
        if ctx.replay.get('clause') == name:
            key = ctx.replay['case']['input']
            try:
                check_case(cases[key])
            except Fail as f:
                ctx.add_violation(name, Fail(f.msg, f'{key}:{f.sig}'), {'input': key})
        return

    def job(kv):
        key, case = kv
        d = tempfile.mkdtemp(prefix='vf_c06_coll_')
        try:
            check_case(case, d)
            return key, None
        except Fail as f:
            return key, f
        finally:
            shutil.rmtree(d, ignore_errors=True)
    with ThreadPoolExecutor(max_workers=6) as ex:
        for key, f in ex.map(job, cases.items()):
            ctx.record({'input': key}, True, ['collision-input'])
            if f is not None:
                ctx.add_violation(name, Fail(f.msg, f'{key}:{f.sig}'), {'input': key})


def run(ctx):
    run_collisions(ctx)
    name = 'compiles'
    ctx.clauses_run.append(name)
    if ctx.replay is not None:
        if ctx.replay.get('clause') == name:
            ctx._run_one(name, check_case, ctx.replay['case'])  # pylint: disable=protected-access
        return
    from vf.draw import draw_stratified
    from vf.runner import load_regress
    cases = load_regress(ctx.prop, name) + gen_cfg.alternate_histories(
        draw_stratified(strata(), 32 if ctx.quick else 300, ctx.seed, wrap=with_order),
        ('edited', 'origin', 'semantics', 'plain'))
    for c in cases:
        ctx.record(c, nontrivial(c), labels(c))
    run_cases(ctx, name, cases, check_case)
