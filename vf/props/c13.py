"""C13 - a build either returns a complete result or fails with a diagnosed error."""
import copy
import signal

from hypothesis import strategies as st

from vf import cfgspec, gen_cfg, gen_shell
from vf.model import declarations, lookup, resolution_order
from vf.runner import Fail

RULE = ('Hypothesis draws valid (shell model, configuration) pairs; every pair is built (must give '
        'exactly the 8 expected files, also when built a second time on the same parsed contents) and then *every applicable single-fault variation* of it is '
        'built as well (fault enumeration): unknown / non-component encapsulee; port type '
        'unresolvable / ambiguous / of the wrong kind; formal type likewise on an MTS port; '
        'selection naming an unknown port, a port under both semantics, ALL + something, mixed '
        'provides, an exposed port left unassigned; multi-client: unknown port, requires port, '
        'unknown claim / release event, reply void / bool / subint, value not a field, port '
        'configured STS. Oracle: valid => complete file set; listed invalid classes => an exception '
        'whose class is defined in the dznpy package, with a message; never a hang (watchdog). '
        'Non-trivial: a faulted case; distinct by (model, cfg, fault) hash.')
LEVEL = 'fault_enumeration'
ASSUMPTIONS = ['models are well-formed Dezyne (vf/gen_shell.py); a reference is valid iff exactly one '
               'declaration of the right kind lies on its scope chain (C07)',
               'a build that needs more than 30 s counts as a hang']
SHARDS = {'quick': 8, 'thorough': 16}

FAULTS = ['enc_unknown', 'enc_empty', 'enc_partial', 'port_elsewhere', 'formal_elsewhere', 'enc_interface', 'enc_extern', 'enc_enum', 'enc_foreign',
          'port_unresolvable', 'port_ambiguous', 'port_wrong_kind',
          'formal_unresolvable', 'formal_ambiguous', 'formal_wrong_kind',
          'sel_unknown_port', 'sel_both', 'sel_all_plus', 'sel_mixed_provides', 'sel_unassigned',
          'sel_other_side',
          'mc_unknown_port', 'mc_requires_port', 'mc_unknown_claim', 'mc_unknown_release',
          'mc_reply_void', 'mc_reply_bool', 'mc_reply_subint', 'mc_bad_value', 'mc_on_sts',
          'mc_qualified_value']


class Timeout(Exception):
    pass


def _alarm(_sig, _frm):
    raise Timeout()


def guarded_outcome(spec, model, fc=None):
    old = signal.signal(signal.SIGALRM, _alarm)
    signal.setitimer(signal.ITIMER_REAL, 30)
    try:
        if fc is not None:
            kind, res = cfgspec.outcome(spec, fc=fc)
        else:
            kind, res = cfgspec.outcome(spec, model=model)
        return ('hang', None) if isinstance(res, Timeout) else (kind, res)
    except Timeout:
        return 'hang', None
    finally:
        signal.setitimer(signal.ITIMER_REAL, 0)
        signal.signal(signal.SIGALRM, old)


def expected_filenames(spec):
    import os
    base = os.path.splitext(os.path.basename(spec['filename'].replace('\\', '/')))[0]
    pre = '_'.join(list(spec['prefix'] or []) + ['Dzn'])
    return [base + spec['suffix'] + '.hh', base + spec['suffix'] + '.cc'] + \
        [f'{pre}_{n}.hh' for n in ('StrictPort', 'ILog', 'MiscUtils', 'MetaHelpers',
                                   'MultiClientSelector', 'MutexWrapped')]


def deepen(sm, spec, depth):
    """The same model `depth` namespace levels further down (namespaces D0 { D1 { ... } }): every
    reference keeps its meaning, everything shifts uniformly.  'never hangs' includes models whose
    cost must not explode with the nesting depth."""
    ids = [f'D{i}' for i in range(depth)]
    root = sm['model']['root']
    for ident in reversed(ids):
        root = [{'k': 'ns', 'ids': [ident], 'elems': root}]
    sm2 = dict(sm, model=dict(sm['model'], root=root), enc=ids + list(sm['enc']))
    spec2 = dict(spec, enc=ids + list(spec['enc']))
    return sm2, spec2


def check_valid(sm, spec, deep=False):
    # "valid inputs always succeed": also when the same parsed contents are built a second time
    if deep:
        # parsing is part of the budget here: one parse + build from the model under the watchdog
        kind, res = guarded_outcome(spec, sm['model'])
        if kind == 'hang':
            raise Fail(f'parse + build of a valid model {len(spec["enc"]) - 1} namespace levels deep did '
                       f'not finish within 30 s', 'valid:hang-deep')
    fc = cfgspec.parse_model(sm['model'])
    first = guarded_outcome(spec, None, fc=fc)
    kind, res = guarded_outcome(spec, None, fc=fc)
    if first[0] == 'ok' and kind == 'err':
        raise Fail(f'the second build of the same valid input on the same parsed contents is '
                   f'rejected: {type(res).__name__}: {res}', f'valid-again:{type(res).__name__}')
    if first[0] == 'ok' and kind == 'ok' and [f[0] for f in first[1]] != [f[0] for f in res]:
        raise Fail('the second build of the same valid input returns other files',
                   'valid-again:file-set')
    kind, res = first
    if kind == 'hang':
        raise Fail('build of a valid configuration did not finish within 30 s', 'valid:hang')
    if kind == 'err':
        raise Fail(f'valid model and configuration rejected: {type(res).__name__}: {res}',
                   f'valid:{type(res).__name__}')
    names = [f[0] for f in res]
    want = expected_filenames(spec)
    if sorted(names) != sorted(want):
        raise Fail(f'file set {names} != {want}', 'valid:file-set')
    for fn, contents, _ in res:
        if not isinstance(contents, str) or not contents.strip():
            raise Fail(f'file {fn} is empty', 'valid:empty-file')


# ---- faults -------------------------------------------------------------------------------

def _find_elem(model, fqn):
    for d in declarations(model):
        if list(d['fqn']) == list(fqn):
            return d
    return None


def _scope_container(model, scope):
    """The element list of (the first block of) namespace path `scope`, creating nothing."""
    elems = model['root']
    path = list(scope)
    while path:
        nxt = None
        for e in elems:
            if e['k'] == 'ns' and e['ids'] == path[:len(e['ids'])]:
                nxt = e
                break
        if nxt is None:
            return None
        path = path[len(nxt['ids']):]
        elems = nxt['elems']
    return elems


def _add_decl(model, scope, elem):
    """Add a declaration at namespace path `scope` (new namespace blocks as needed)."""
    cont = _scope_container(model, scope)
    if cont is not None:
        cont.append(elem)
        return
    # build the missing tail below the deepest existing prefix
    for k in range(len(scope) - 1, -1, -1):
        cont = _scope_container(model, scope[:k])
        if cont is not None:
            node = elem
            for ident in reversed(scope[k:]):
                node = {'k': 'ns', 'ids': [ident], 'elems': [node]}
            cont.append(node)
            return


def _ambiguate(model, written, from_scope, kind_elem):
    """Add a second declaration so that `written` looked up from `from_scope` finds two."""
    decls = declarations(model)
    have = {d['fqn'] for d in decls}
    ns_paths = set()

    def rec(elems, scope):
        for e in elems:
            if e['k'] == 'ns':
                ns_paths.add(scope + tuple(e['ids']))
                rec(e['elems'], scope + tuple(e['ids']))
    rec(model['root'], ())
    for cand in resolution_order(written, from_scope):
        if cand in have or cand in ns_paths or len(cand) < 1:
            continue
        # the new declaration's own scope must not be an existing declaration (e.g. interface)
        if any(cand[:k] in have for k in range(1, len(cand))):
            continue
        elem = copy.deepcopy(kind_elem)
        elem['name'] = [cand[-1]]
        _add_decl(model, cand[:-1], elem)
        return True
    return False


def apply_fault(sm, spec, fault, pick):
    """Return (sm', spec') with exactly one fault, or None when not applicable."""
    sm, spec = copy.deepcopy(sm), copy.deepcopy(spec)
    model = sm['model']
    decls = declarations(model)
    enc = gen_shell.find_enc(sm)
    table = gen_shell.port_table(sm)
    prov = [p for p in table if p['dir'] == 'provides']
    req = [p for p in table if p['dir'] == 'requires' and not p['injected']]

    def sem_of(port):
        side = spec['prov'] if port['dir'] == 'provides' else spec['req']
        if isinstance(side['sts'], list) and port['name'] in side['sts']:
            return 'STS'
        if isinstance(side['mts'], list) and port['name'] in side['mts']:
            return 'MTS'
        return 'STS' if side['sts'] in ('ALL', 'REMAINING') else 'MTS'

    if fault == 'enc_unknown':
        spec['enc'] = spec['enc'][:-1] + ['NoSuchComponent']
        return sm, spec
    if fault == 'enc_empty':
        # no name at all, in every spelling Builder.build accepts
        spec['enc'] = []
        spec['enc_as'] = [None, 'dotted', 'list', 'colons'][pick % 4]
        return sm, spec
    if fault == 'enc_partial':
        # only the last identifier of a component that lives in a namespace
        if len(spec['enc']) < 2:
            return None
        spec['enc'] = spec['enc'][-1:]
        if len(lookup(decls, spec['enc'], [])) != 0:
            return None
        return sm, spec
    if fault in ('port_elsewhere', 'formal_elsewhere'):
        # a partially qualified name that resolves nowhere on the referring scope's chain, while a
        # declaration of the right kind with exactly this name suffix exists in an unrelated branch
        names = {i for d in decls for i in d['fqn']}
        if names & {'Elsewhere9', 'Vendor9', 'Thing9'}:
            return None
        elem = {'k': 'interface', 'name': ['Thing9'], 'types': [], 'events': []} \
            if fault == 'port_elsewhere' else {'k': 'extern', 'name': ['Thing9'], 'value': 'int'}
        model['root'].append({'k': 'ns', 'ids': ['Elsewhere9'], 'elems': [
            {'k': 'ns', 'ids': ['Vendor9'], 'elems': [elem]}]})
        if fault == 'port_elsewhere':
            if not table:
                return None
            enc['elem']['ports'][pick % len(table)]['type'] = ['Vendor9', 'Thing9']
            return sm, spec
        fault = 'formal_unresolvable_elsewhere'
    if fault.startswith('enc_'):
        kind = fault[4:]
        cands = [d for d in decls if d['kind'] == kind]
        if not cands:
            return None
        spec['enc'] = list(cands[pick % len(cands)]['fqn'])
        return sm, spec
    if fault.startswith('port_'):
        if not table:
            return None
        port = enc['elem']['ports'][pick % len(table)]
        if fault == 'port_unresolvable':
            port['type'] = ['No', 'Such', 'Itf']
        elif fault == 'port_wrong_kind':
            others = [d for d in decls if d['kind'] in ('extern', 'enum', 'component', 'system')
                      and d['elem'] is not enc['elem']]
            if not others:
                return None
            port['type'] = list(others[pick % len(others)]['fqn'])
            if len(lookup(decls, port['type'], enc['scope'])) != 1:
                return None
        else:
            dup = [{'k': 'interface', 'name': ['x'], 'types': [], 'events': []},
                   {'k': 'subint', 'name': ['x'], 'lo': 0, 'hi': 1},
                   {'k': 'system', 'name': ['x'], 'ports': [], 'instances': [], 'bindings': []},
                   {'k': 'enum', 'name': ['x'], 'fields': ['A']},
                   {'k': 'component', 'name': ['x'], 'ports': []},
                   {'k': 'extern', 'name': ['x'], 'value': 'int'},
                   {'k': 'foreign', 'name': ['x'], 'ports': []}][pick % 7]
            # any second declaration on the chain makes the reference ambiguous, whatever its kind
            if not _ambiguate(model, port['type'], enc['scope'], dup):
                return None
        return sm, spec
    if fault.startswith('formal_'):  # (also reached from formal_elsewhere above)
        # a formal of an event that the shell really uses: an MTS port's interface
        slots = []
        for p in table:
            if p['injected'] or sem_of(p) != 'MTS' or p['itf'] is None:
                continue
            is_mc = bool(spec.get('mc')) and spec['mc']['port'] == p['name']
            for ev in p['itf']['elem']['events']:
                # the shell only spells out the formals of events it reroutes: in-events of MTS
                # provides ports, out-events of MTS requires ports, both for a multi-client port
                used = (p['dir'] == 'provides' and ev['dir'] == 'in') or \
                       (p['dir'] == 'requires' and ev['dir'] == 'out') or is_mc
                if not used:
                    continue
                for f in ev['formals']:
                    slots.append((p, ev, f))
        if not slots:
            return None
        p, ev, f = slots[pick % len(slots)]
        if fault == 'formal_unresolvable_elsewhere':
            f['type'] = ['Vendor9', 'Thing9']
        elif fault == 'formal_unresolvable':
            f['type'] = ['NoSuchType']
        elif fault == 'formal_wrong_kind':
            others = [d for d in decls if d['kind'] in ('enum', 'interface', 'component')]
            if not others:
                return None
            tgt = others[pick % len(others)]
            f['type'] = list(tgt['fqn'])
            if len(lookup(decls, f['type'], p['itf']['fqn'])) != 1:
                return None
        else:
            dup = [{'k': 'extern', 'name': ['x'], 'value': 'int'},
                   {'k': 'subint', 'name': ['x'], 'lo': 0, 'hi': 1},
                   {'k': 'enum', 'name': ['x'], 'fields': ['A']},
                   {'k': 'system', 'name': ['x'], 'ports': [], 'instances': [], 'bindings': []},
                   {'k': 'component', 'name': ['x'], 'ports': []}][pick % 5]
            if not _ambiguate(model, f['type'], p['itf']['fqn'], dup):
                return None
        return sm, spec
    if fault.startswith('sel_'):
        side_name, ports = ('req', req) if (pick % 2 and req) else ('prov', prov)
        if fault == 'sel_mixed_provides':
            if len(prov) < 2:
                return None
            spec['prov'] = {'sts': [prov[0]['name']], 'mts': [p['name'] for p in prov[1:]]}
            return sm, spec
        side = spec[side_name]
        if fault == 'sel_unknown_port':
            key = 'sts' if side['sts'] != 'NONE' or side['mts'] == 'ALL' else 'mts'
            if side['sts'] == 'ALL':
                side['sts'] = 'REMAINING'
            if side['mts'] == 'ALL':
                side['mts'] = 'REMAINING'
            cur = side[key]
            side[key] = (cur if isinstance(cur, list) else []) + ['no_such_port']
            other = 'mts' if key == 'sts' else 'sts'
            if side[other] == 'NONE' and not isinstance(cur, list):
                side[other] = 'REMAINING' if cur in ('REMAINING', 'ALL') else side[other]
            return sm, spec
        if fault == 'sel_other_side':
            mine, theirs = (prov, req) if side_name == 'prov' else (req, prov)
            if not theirs:
                return None
            side2 = spec[side_name]
            key = 'sts' if isinstance(side2['sts'], list) or side2['sts'] != 'NONE' else 'mts'
            cur = side2[key]
            if cur == 'ALL':
                return None
            if not isinstance(cur, list):
                okey = 'mts' if key == 'sts' else 'sts'
                if side2[okey] != 'NONE':
                    return None
                side2[okey] = cur  # wildcard moves over, explicit list takes its place
                # that flips semantics of the remaining ports; fine, still a single naming fault
                side2[key] = [theirs[0]['name']]
                if side_name == 'prov':
                    return None  # would be a mixed-provides fault as well
            else:
                side2[key] = cur + [theirs[0]['name']]
            return sm, spec
        if not ports:
            return None
        name = ports[pick % len(ports)]['name']
        if fault == 'sel_both':
            side['sts'] = (side['sts'] if isinstance(side['sts'], list) else []) + [name]
            side['mts'] = (side['mts'] if isinstance(side['mts'], list) else []) + [name]
            side['sts'] = list(dict.fromkeys(side['sts']))
            side['mts'] = list(dict.fromkeys(side['mts']))
            return sm, spec
        if fault == 'sel_all_plus':
            if side['sts'] in ('ALL', 'REMAINING') or isinstance(side['sts'], list):
                side['sts'], side['mts'] = 'ALL', [name]
            else:
                side['sts'], side['mts'] = [name], 'ALL'
            return sm, spec
        if fault == 'sel_unassigned':
            if len(ports) < 2:
                return None
            keep = [p['name'] for p in ports if p['name'] != name]
            sem = sem_of(ports[0]) if side_name == 'prov' else 'STS'
            spec[side_name] = {'sts': keep, 'mts': 'NONE'} if sem == 'STS' else \
                {'sts': 'NONE', 'mts': keep}
            return sm, spec
    if fault.startswith('mc_'):
        mc = spec.get('mc')
        if not mc:
            return None
        hit = [p for p in prov if p['name'] == mc['port']]
        if not hit or hit[0]['itf'] is None:
            return None  # the configuration is not a valid one to begin with (an earlier fault)
        port = hit[0]
        itf = port['itf']['elem']
        if fault == 'mc_unknown_port':
            mc['port'] = 'no_such_port'
        elif fault == 'mc_requires_port':
            if not req:
                return None
            mc['port'] = req[pick % len(req)]['name']
        elif fault == 'mc_unknown_claim':
            mc['claim'] = 'NoSuchEvent'
        elif fault == 'mc_unknown_release':
            mc['release'] = 'NoSuchEvent'
        elif fault in ('mc_reply_void', 'mc_reply_bool', 'mc_reply_subint'):
            ev = [e for e in itf['events'] if e['name'] == mc['claim']][0]
            if fault == 'mc_reply_subint':
                subs = [d for d in decls if d['kind'] == 'subint']
                if not subs:
                    _add_decl(model, (), {'k': 'subint', 'name': ['SubFault'], 'lo': 0, 'hi': 3})
                    ev['ret'] = ['SubFault']
                else:
                    ev['ret'] = list(subs[0]['fqn'])
                if len(lookup(declarations(model), ev['ret'], port['itf']['fqn'])) != 1:
                    return None
            else:
                ev['ret'] = ['void'] if fault == 'mc_reply_void' else ['bool']
        elif fault == 'mc_bad_value':
            mc['grant'] = ['NotAField']
        elif fault == 'mc_qualified_value':
            found = lookup(decls, [e for e in itf['events'] if e['name'] == mc['claim']][0]['ret'],
                           port['itf']['fqn'])
            mc['grant'] = [found[0]['fqn'][-1] + 'X', mc['grant'][0]]
        elif fault == 'mc_on_sts':
            names = [p['name'] for p in prov]
            spec['prov'] = {'sts': 'ALL', 'mts': 'NONE'} if pick % 2 else \
                {'sts': names, 'mts': 'NONE'}
        return sm, spec
    return None


def check_fault(sm, spec, fault):
    kind, res = guarded_outcome(spec, sm['model'])
    if kind == 'hang':
        raise Fail(f'fault {fault}: build did not finish within 30 s', f'{fault}:hang')
    if kind == 'ok':
        raise Fail(f'fault {fault}: build succeeded ({[f[0] for f in res]}) although the input is '
                   f'invalid', f'{fault}:accepted')
    if not cfgspec.library_error(res):
        raise Fail(f'fault {fault}: {type(res).__module__}.{type(res).__name__}: {res!r} is not one '
                   f'of the library\'s own error types (or has no message)',
                   f'{fault}:{type(res).__name__}')


def check_case(case):
    """case = {sm, spec, fault: name | None, pick}."""
    sm, spec = case['sm'], case['spec']
    if case.get('fault') is None:
        if case.get('deep'):
            sm, spec = deepen(sm, spec, case['deep'])
        check_valid(sm, spec, deep=bool(case.get('deep')))
        return
    faulted = apply_fault(sm, spec, case['fault'], case.get('pick', 0))
    if faulted is None:
        return
    check_fault(faulted[0], faulted[1], case['fault'])


def run(ctx):
    name = 'single_faults'
    ctx.clauses_run.append(name)
    if ctx.replay is not None:
        if ctx.replay.get('clause') == name:
            ctx._run_one(name, check_case, ctx.replay['case'])  # pylint: disable=protected-access
        return
    from vf.draw import draw_cases
    from vf.runner import load_regress
    for case in load_regress(ctx.prop, name):
        ctx.record(case, True, ('regress',))
        ctx._run_one(name, check_case, case)  # pylint: disable=protected-access
    n = ctx.n(960, 8000)
    strat = st.tuples(st.one_of(gen_cfg.model_and_spec(),
                                gen_cfg.model_and_spec(want_mc=True),
                                gen_cfg.model_and_spec(force=['dict_names']),
                                gen_cfg.model_and_spec(force=['big'], want_mixed=True),
                                gen_cfg.model_and_spec(force=['dict_names'], want_mc=True),
                                gen_cfg.model_and_spec(want_mixed=True, force=['many_ports'])),
                      st.integers(0, 1000))
    seen = set()
    for nb, (base, pick) in enumerate(draw_cases(strat, n, ctx.seed)):
        cases = [{'sm': base['sm'], 'spec': base['spec'], 'fault': None}]
        if nb < (6 if ctx.quick else 60):
            # the same valid input far down in nested namespaces
            cases += [{'sm': base['sm'], 'spec': base['spec'], 'fault': None, 'deep': d}
                      for d in ((24, 45) if nb % 2 else (33, 60))]
        cases += [{'sm': base['sm'], 'spec': base['spec'], 'fault': f, 'pick': pick} for f in FAULTS]
        for case in cases:
            applicable = case['fault'] is None or \
                apply_fault(case['sm'], case['spec'], case['fault'], pick) is not None
            if not applicable:
                ctx.classes['inapplicable:' + case['fault']] += 1
                continue
            ctx.record(case, case['fault'] is not None or bool(case.get('deep')),
                       [case['fault'] or ('valid-deep' if case.get('deep') else 'valid')])
            try:
                ctx._guard(check_case, case)  # pylint: disable=protected-access
            except Fail as f:
                sig = f'{name}:{f.sig}'
                if sig in seen:
                    ctx.excluded[sig] += 1
                    continue
                seen.add(sig)
                ctx.add_violation(name, f, case)
