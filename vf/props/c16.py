"""C16 - parses are isolated and repeatable."""
import contextlib
import io
import os
import tempfile

import orjson
from hypothesis import strategies as st

from vf import gen_doc, mutate_json
from vf.model import expected_file_contents
from vf.runner import Fail
from vf.to_json import to_json
from vf.view import first_difference, view

RULE = ('Model-based generation of histories (operation sequences as data, interpreted against the '
        'real parser and a reference): ops new_parser(doc) / new_empty_parser / load_file(p, doc) / '
        'process(p) over 1-3 documents (well-formed and malformed, generators of C05/C15) and any '
        'number of live instances; oracle after every process(): the returned contents equal the '
        'reference contents of that document (or the same documented error class as a fresh parse), '
        'and every result handed out earlier still has the view it had when it was returned. '
        'Non-trivial: >= 2 live instances and a repeated process() on one of them; distinct by hash.')
ASSUMPTIONS = ['reference contents as in C05', 'a failed process() says nothing about file_contents']
SHARDS = {'thorough': 16}

doc_spec = st.one_of(
    st.fixed_dictionaries({'model': gen_doc.doc_model(max_depth=2)}),
    st.fixed_dictionaries({'model': gen_doc.doc_model(max_depth=2)}),
    st.fixed_dictionaries({'model': gen_doc.doc_model(max_depth=2),
                           'mutations': mutate_json.mutations}))
_new = st.fixed_dictionaries({'op': st.just('new'), 'doc': st.integers(0, 9)})
_process = st.fixed_dictionaries({'op': st.just('process'), 'p': st.sampled_from([0, 0, 0, 1, 1, 2, 3])})
op = st.one_of(
    _new, _new,
    st.fixed_dictionaries({'op': st.just('new_empty')}),
    st.fixed_dictionaries({'op': st.just('load'), 'p': st.integers(0, 3), 'doc': st.integers(0, 9)}),
    _process, _process, _process, _process,
)
good_doc = st.fixed_dictionaries({'model': gen_doc.doc_model(max_depth=3)})
bad_doc = st.fixed_dictionaries({'model': gen_doc.doc_model(max_depth=3),
                                 'mutations': mutate_json.mutations})
# forced shape: a parse that (probably) fails half-way, then the same instance is used again
reuse_after_failure = st.tuples(bad_doc, good_doc, st.lists(op, max_size=4)).map(lambda t: {
    'docs': [t[0], t[1]],
    'ops': [{'op': 'new', 'doc': 0}, {'op': 'process', 'p': 0}, {'op': 'load', 'p': 0, 'doc': 1},
            {'op': 'process', 'p': 0}, {'op': 'new', 'doc': 1}, {'op': 'process', 'p': 1}] + t[2]})
free_history = st.fixed_dictionaries({'docs': st.lists(doc_spec, min_size=1, max_size=3),
                                 'ops': st.tuples(_new, st.lists(op, min_size=2, max_size=12),
                                                 st.lists(_process, max_size=3)).map(
                                     lambda t: [t[0]] + t[1] + t[2])})
# forced shape: two documents that hold the very same elements under different outer namespaces
# (Alpha.<doc> / Beta.<doc>), parsed by different instances in one process, in interleaved order
sibling_docs = st.tuples(gen_doc.doc_model(max_depth=3), st.lists(op, max_size=4),
                         st.sampled_from([(['Alpha'], ['Beta']), (['A', 'Hal'], ['B', 'Hal']),
                                          (['Left'], ['Right', 'Left'])])).map(lambda t: {
    'docs': [{'model': gen_doc.wrapped(t[0], t[2][0])}, {'model': gen_doc.wrapped(t[0], t[2][1])}],
    'ops': [{'op': 'new', 'doc': 0}, {'op': 'process', 'p': 0}, {'op': 'new', 'doc': 1},
            {'op': 'process', 'p': 1}, {'op': 'process', 'p': 0}] + t[1]})
history = st.one_of(free_history, free_history, reuse_after_failure, sibling_docs)


def doc_bytes(spec):
    doc = to_json(spec['model'])
    if spec.get('mutations'):
        doc, _ = mutate_json.apply(doc, spec['mutations'])
    return orjson.dumps(doc)


def fresh_outcome(data, model, mutated):
    """What a parse of this document alone gives: ('ok', view) or ('err', exception class name).
    For unmutated documents the view is the independent reference, not a parser result."""
    from dznpy.json_ast import DznJsonAst
    if not mutated:
        return ('ok', expected_file_contents(model))
    with contextlib.redirect_stdout(io.StringIO()):
        try:
            return ('ok', view(DznJsonAst(data).process()))
        except Exception as exc:  # pylint: disable=broad-except
            return ('err', type(exc).__name__)


def check_history(case):
    from dznpy.json_ast import DznJsonAst
    try:
        docs = [doc_bytes(d) for d in case['docs']]
    except (orjson.JSONEncodeError, TypeError):
        return
    want = [fresh_outcome(b, d['model'], bool(d.get('mutations')))
            for b, d in zip(docs, case['docs'])]
    parsers = []  # [instance, index of loaded doc or None]
    handed_out = []  # (result object, its view at the time, description)
    tmpdir = None
    out = io.StringIO()
    try:
        with contextlib.redirect_stdout(out):
            for step, o in enumerate(case['ops']):
                if o['op'] == 'new':
                    di = o['doc'] % len(docs)
                    parsers.append([DznJsonAst(docs[di]), di])
                elif o['op'] == 'new_empty':
                    parsers.append([DznJsonAst(), None])
                elif not parsers:
                    continue
                elif o['op'] == 'load':
                    p = parsers[o['p'] % len(parsers)]
                    di = o['doc'] % len(docs)
                    if tmpdir is None:
                        tmpdir = tempfile.mkdtemp(prefix='vf_c16_')
                    # only two file names per history: the same path is loaded again with other contents
                    path = os.path.join(tmpdir, f'slot{(o["p"] + o["doc"]) % 2}.json')
                    with open(path, 'wb') as fh:
                        fh.write(docs[di])
                    r = p[0].load_file(path)
                    if r is not p[0]:
                        raise Fail('load_file does not return the parser (fluent)', 'fluent')
                    p[1] = di
                elif o['op'] == 'process':
                    pi = o['p'] % len(parsers)
                    p = parsers[pi]
                    if p[1] is None:
                        continue  # nothing loaded: outside the statement
                    exp = want[p[1]]
                    try:
                        res = p[0].process()
                        got = ('ok', view(res))
                    except Exception as exc:  # pylint: disable=broad-except
                        res, got = None, ('err', type(exc).__name__)
                    if got[0] != exp[0]:
                        raise Fail(f'step {step}: process() of parser {pi} gave {got[0]} '
                                   f'({got[1] if got[0] == "err" else ""}), a parse of this document '
                                   f'alone gives {exp[0]}', 'outcome-differs')
                    if got[0] == 'err' and got[1] != exp[1]:
                        raise Fail(f'step {step}: error {got[1]} instead of {exp[1]}', 'error-differs')
                    if got[0] == 'ok':
                        diff = first_difference(exp[1], got[1])
                        if diff:
                            raise Fail(f'step {step}: process() of parser {pi} (document '
                                       f'{p[1]}) differs from parsing the document alone: {diff}',
                                       'result-differs')
                        handed_out.append((res, got[1], f'step {step} parser {pi}'))
                # results handed out earlier must not change
                for res, snap, desc in handed_out[:-1] if o['op'] == 'process' else handed_out:
                    diff = first_difference(snap, view(res))
                    if diff:
                        raise Fail(f'result of {desc} changed after step {step} ({o}): {diff}',
                                   'earlier-result-changed')
    finally:
        if tmpdir:
            import shutil
            shutil.rmtree(tmpdir, ignore_errors=True)


def stats(case):
    live, procs, repeated = 0, {}, False
    for o in case['ops']:
        if o['op'] in ('new', 'new_empty'):
            live += 1
        elif o['op'] == 'process' and live:
            k = o['p'] % live
            procs[k] = procs.get(k, 0) + 1
            repeated = repeated or procs[k] >= 2
    return live, repeated


def nontrivial(case):
    live, repeated = stats(case)
    return live >= 2 and repeated


def labels(case):
    live, repeated = stats(case)
    out = [f'live={min(live, 4)}']
    if repeated:
        out.append('repeated-process')
    if any(o['op'] == 'load' for o in case['ops']):
        out.append('load_file')
    if any(d.get('mutations') for d in case['docs']):
        out.append('malformed-doc')
    return out


def run(ctx):
    ctx.clause('history', history, check_history, ctx.n(350, 20000), nontrivial=nontrivial,
               labels=labels)
