"""C15 - the parser rejects malformed input only with its documented errors."""
import contextlib
import io

import orjson
from hypothesis import strategies as st

from vf import gen_doc, mutate_json
from vf.model import walk
from vf.runner import Fail
from vf.to_json import to_json

RULE = ('Exhaustive single faults on one canonical document with every element kind (each JSON slot x '
        'delete / retype / hostile string / retag / empty / duplicate); plus Hypothesis: well-formed documents (parser-level model generator of C05) with 1-4 structural '
        'mutations at drawn JSON paths (delete a key/item, retype a value, retag <class>, invalid '
        'identifier, empty list, duplicate an item, replace a subtree by arbitrary JSON), and '
        'arbitrary JSON values as whole documents; oracle: process() returns a FileContents or '
        'raises DznJsonError / NamespaceIdsTypeError, nothing else. Second clause: a well-formed '
        'document into which one out-event with a non-void reply or with an `out` formal is '
        'injected at a reachable interface must not parse. Non-trivial: first mutation >= 3 levels '
        'below the root; distinct by document hash. Thorough adds an atheris (libFuzzer) campaign '
        'on the same test function when atheris is importable. Clause deep_nesting: 1-512 nested namespaces '
        '(and equally deep junk inside an unknown element) around a well-formed / malformed element.')
ASSUMPTIONS = ['documents are valid JSON; generated documents nest <= ~25 levels, the clause deep_nesting '
               'goes up to the 1024 levels the JSON decoder accepts (1-512 nested namespaces)',
               '`inout` formals on out events are not judged (the statement names `out` only)']
SHARDS = {'thorough': 16}


def allowed_errors():
    from dznpy.json_ast import DznJsonError
    from dznpy.scoping import NamespaceIdsTypeError
    return (DznJsonError, NamespaceIdsTypeError)


def parse_bytes(data):
    """process(); a document that was refused is refused again when the same instance is asked a
    second time ('always refused'), one that was accepted is accepted again."""
    from dznpy.ast import FileContents
    from dznpy.json_ast import DznJsonAst
    with contextlib.redirect_stdout(io.StringIO()):
        parser = DznJsonAst(data)
        try:
            res = parser.process()
        except allowed_errors() as first:
            try:
                again = parser.process()
            except allowed_errors():
                raise first from None
            raise Fail(f'refused with {type(first).__name__} ({str(first)[:80]}), but a second process() '
                       f'on the same instance returned {type(again).__name__}', 'refused-then-accepted') \
                from None
        again = parser.process()
        if isinstance(res, FileContents) and not isinstance(again, FileContents):
            raise Fail('accepted, but a second process() on the same instance returned '
                       f'{type(again).__name__}', 'accepted-then-other')
        return res


_LAST = [None, None]


def build_doc(case):
    if 'raw' in case:
        return case['raw'], [('raw', 0)]
    if _LAST[0] is case:
        return _LAST[1]
    doc = to_json(case['model'], gen_doc.noise_fn(case.get('noise') or {}))
    _LAST[0], _LAST[1] = case, mutate_json.apply(doc, case['mutations'])
    return _LAST[1]


def check_documented_errors(case):
    from dznpy.ast import FileContents
    doc, _ = build_doc(case)
    try:
        data = orjson.dumps(doc)
    except (orjson.JSONEncodeError, TypeError):  # not a JSON document: outside the domain
        return
    try:
        res = parse_bytes(data)
    except allowed_errors():
        return
    if not isinstance(res, FileContents):
        raise Fail(f'process() returned {type(res).__name__}', 'return-type')


@st.composite
def bad_out_event_case(draw):
    model = draw(gen_doc.doc_model(max_depth=3))
    itfs = [e for _, e in walk(model['root']) if e['k'] == 'interface']
    if not itfs:
        itf = draw(gen_doc.interface_decl())
        model['root'].append(itf)
        itfs = [itf]
    target = draw(st.integers(0, len(itfs) - 1))
    kind = draw(st.sampled_from(['valued', 'out-formal', 'both']))
    ev = {'name': draw(gen_doc.ident()), 'dir': 'out', 'ret': ['void'],
          'formals': draw(st.lists(gen_doc.formal(only_in=True), max_size=2))}
    if kind in ('valued', 'both'):
        ev['ret'] = draw(st.sampled_from([['bool'], ['Result'], ['My', 'Result'], ['int'],
                                          ['Void'], ['void', 'x']]))
    if kind in ('out-formal', 'both'):
        pos = draw(st.integers(0, len(ev['formals'])))
        ev['formals'].insert(pos, {'name': draw(gen_doc.ident()), 'type': draw(gen_doc.type_ref()),
                                   'dir': 'out'})
    return {'model': model, 'itf': target, 'event': ev, 'pos': draw(st.integers(0, 5)),
            'kind': kind}


def check_bad_out_event(case):
    import copy
    model = copy.deepcopy(case['model'])
    itfs = [e for _, e in walk(model['root']) if e['k'] == 'interface']
    itf = itfs[case['itf'] % len(itfs)]
    itf['events'].insert(case['pos'] % (len(itf['events']) + 1), case['event'])
    data = orjson.dumps(to_json(model))
    try:
        parse_bytes(data)
    except allowed_errors():
        return
    raise Fail(f'a document with an out event {case["event"]} was accepted', 'bad-out-accepted')


# ---- documents nested as deeply as the JSON decoder accepts

DEPTHS = [1, 10, 60, 150, 250, 350, 420] + list(range(440, 514, 2))
BOTTOMS = ['enum', 'component', 'component-without-ports', 'interface-bad-out-event', 'junk-in-unknown']


def deep_cases():
    for d in DEPTHS:
        for b in BOTTOMS:
            yield {'depth': d, 'bottom': b}


def deep_document(case):
    import json
    name = lambda n: {'<class>': 'scope_name', 'ids': [n]}  # noqa: E731
    b = case['bottom']
    if b == 'enum':
        inner = [{'<class>': 'enum', 'name': name('E'), 'fields': {'<class>': 'fields', 'elements': ['A']}}]
    elif b.startswith('component'):
        inner = [{'<class>': 'component', 'name': name('C'),
                  'ports': {'<class>': 'ports', 'elements': []}}]
        if b.endswith('without-ports'):
            del inner[0]['ports']
    elif b == 'interface-bad-out-event':
        inner = [to_json({'root': [{'k': 'interface', 'name': ['I'], 'types': [], 'events': [
            {'name': 'e', 'dir': 'out', 'ret': ['bool'], 'formals': []}]}], 'wd': '/w'})['elements'][0]]
    else:
        junk = 0
        for _ in range(case['depth']):
            junk = {'x': [junk]}
        return json.dumps({'<class>': 'root', 'working-directory': '/w', 'elements': [
            {'<class>': 'behaviour-of-the-future', 'name': name('B'), 'statement': junk}]}).encode()
    for i in range(case['depth']):
        inner = [{'<class>': 'namespace', 'name': name(f'N{i}'), 'elements': inner}]
    return json.dumps({'<class>': 'root', 'working-directory': '/w', 'elements': inner}).encode()


def check_deep(case):
    """Whatever the nesting depth: file contents or a documented error.  (A document the JSON
    decoder itself refuses - orjson stops at 1024 levels - is not a JSON document for the parser.)"""
    from dznpy.ast import FileContents
    data = deep_document(case)
    try:
        res = parse_bytes(data)
    except allowed_errors():
        if case['bottom'] in ('enum', 'component') and case['depth'] <= 350:
            raise Fail(f'a well-formed document with {case["depth"]} nested namespaces is refused',
                       'deep:refused') from None
        return
    except orjson.JSONDecodeError:
        return
    if not isinstance(res, FileContents):
        raise Fail(f'process() returned {type(res).__name__}', 'return-type')
    if case['bottom'] in ('component-without-ports', 'interface-bad-out-event'):
        raise Fail(f'malformed element below {case["depth"]} namespaces was accepted', 'deep:accepted')
    if case['bottom'] == 'enum' and (len(res.enums) != 1 or len(res.enums[0].fqn.items) != case['depth'] + 1):
        raise Fail(f'enum below {case["depth"]} namespaces: parsed as '
                   f'{[len(e.fqn.items) for e in res.enums]} identifiers', 'deep:fqn')


# ---- exhaustive single faults on one canonical document that holds every element kind

def canonical_model():
    ev = lambda n, d, ret, fs: {'name': n, 'dir': d, 'ret': ret, 'formals': [  # noqa: E731
        {'name': fn, 'type': ft, 'dir': fd} for fn, ft, fd in fs]}
    port = lambda n, t, d, inj=False: {'name': n, 'type': t, 'dir': d, 'injected': inj}  # noqa: E731
    itf = {'k': 'interface', 'name': ['IApi'], 'types': [
        {'k': 'enum', 'name': ['Result'], 'fields': ['Ok', 'Fail']},
        {'k': 'subint', 'name': ['Small'], 'lo': 0, 'hi': 3},
        {'k': 'unknown', 'cls': 'int', 'junk': {'name': 'x'}}],
        'events': [ev('Claim', 'in', ['Result'], [('a', ['Info'], 'in'), ('b', ['My', 'Info'], 'out'),
                                                  ('c', ['Info'], 'inout')]),
                   ev('Done', 'out', ['void'], [('d', ['Info'], 'in')])]}
    ports = [port('api', ['IApi'], 'provides'), port('hw', ['My', 'IApi'], 'requires'),
             port('cfg', ['IApi'], 'requires', True)]
    return {'wd': '/w', 'comment': '// c', 'root': [
        {'k': 'filename', 'name': './x.dzn'}, {'k': 'import', 'name': 'y.dzn'},
        {'k': 'unknown', 'cls': 'bool', 'junk': {}},
        {'k': 'extern', 'name': ['Info'], 'value': 'std::string'},
        {'k': 'ns', 'ids': ['My', 'Sub'], 'elems': [
            {'k': 'extern', 'name': ['Info'], 'value': 'int'},
            {'k': 'enum', 'name': ['E'], 'fields': ['A']},
            {'k': 'subint', 'name': ['S'], 'lo': -1, 'hi': 1},
            itf,
            {'k': 'component', 'name': ['Comp'], 'ports': ports},
            {'k': 'foreign', 'name': ['F'], 'ports': ports[:1]},
            {'k': 'system', 'name': ['Sys'], 'ports': ports[:2],
             'instances': [{'name': 'c', 'type': ['Comp']}],
             'bindings': [{'left': {'port': 'api', 'inst': None}, 'right': {'port': 'api', 'inst': 'c'}}]},
            {'k': 'ns', 'ids': ['Deep'], 'elems': [{'k': 'raw', 'value': 7}]}]}]}


_CANON = []
HOSTILE_STRINGS = ['', '%', '%s', '100%', '{0}', '{', '}', '\n', 'x' * 300, 'in ', 'IN', 'injected ',
                   'a.b', '1a', '\\', '\x00', 'void',
                   # identifier-like for Unicode-aware predicates, invalid for the ASCII rule
                   'Gr\u00f6\u00dfe', '\u03c0', 'x\u00b2', '\u53d8\u91cf', 'caf\u00e9', '\u0661', 'a\u0301',
                   '_\u00aa', '\uff21']
RETYPES = [None, True, 7, 3.5, [], {}, ['x'], {'<class>': 'enum'}, 'str',
           # values that are "falsy" / equal to other Python values (False == 0, 0.0, '')
           False, 0, -1, 0.0, '', [None], [False], [[]], 2 ** 62]


def single_fault_cases():
    doc = to_json(canonical_model())
    slots = mutate_json.paths(doc)
    for i, (cont, key) in enumerate(slots):
        yield {'slot': i, 'op': 'delete'}
        for r in range(len(RETYPES)):
            yield {'slot': i, 'op': 'retype', 'arg': r}
        if isinstance(cont[key], str):
            for h in range(len(HOSTILE_STRINGS)):
                yield {'slot': i, 'op': 'string', 'arg': h}
        if key == '<class>':
            for c in range(len(mutate_json.KNOWN_CLASSES) + 1):
                yield {'slot': i, 'op': 'retag', 'arg': c}
        if isinstance(cont[key], list):
            yield {'slot': i, 'op': 'empty'}
            yield {'slot': i, 'op': 'dup'}


def check_single_fault(case):
    import copy
    from dznpy.ast import FileContents
    if not _CANON:
        _CANON.append(orjson.dumps(to_json(canonical_model())))
    doc = orjson.loads(_CANON[0])
    cont, key = mutate_json.paths(doc)[case['slot']]
    op = case['op']
    if op == 'delete':
        del cont[key]
    elif op == 'retype':
        cont[key] = copy.deepcopy(RETYPES[case['arg']])
    elif op == 'string':
        cont[key] = HOSTILE_STRINGS[case['arg']]
    elif op == 'retag':
        cont[key] = (mutate_json.KNOWN_CLASSES + ['bogus'])[case['arg']]
    elif op == 'empty':
        cont[key] = []
    elif op == 'dup':
        cont[key] = cont[key] + copy.deepcopy(cont[key])
    try:
        res = parse_bytes(orjson.dumps(doc))
    except allowed_errors():
        return
    if not isinstance(res, FileContents):
        raise Fail(f'process() returned {type(res).__name__}', 'return-type')


def nontrivial(case):
    if 'raw' in case:
        return False
    _, applied = build_doc(case)
    return bool(applied) and applied[0][1] >= 3


def labels(case):
    if 'raw' in case:
        return ['raw-json']
    _, applied = build_doc(case)
    return [f'op={a[0]}' for a in applied] + [f'first-depth={min(applied[0][1], 8)}',
                                              f'nmut={len(applied)}']


def run(ctx):
    ctx.enumerate('single_fault_exhaustive', single_fault_cases(), check_single_fault,
                  nontrivial=lambda c: True, labels=lambda c: ['single-fault-' + c['op']])
    ctx.extra['exhaustive_part'] = ('every slot of one canonical document holding all element kinds x '
                                    '{delete, 18 retypings, 26 hostile strings, every class tag, empty / '
                                    'duplicated list}')
    ctx.enumerate('deep_nesting', deep_cases(), check_deep, nontrivial=lambda c: c['depth'] >= 60,
                  labels=lambda c: ['deep', 'depth>=440' if c['depth'] >= 440 else 'depth<440',
                                    c['bottom']])
    mutated = st.fixed_dictionaries({'model': gen_doc.doc_model(max_depth=4),
                                     'noise': gen_doc.noise(), 'mutations': mutate_json.mutations})
    raw = gen_doc.json_junk.map(lambda v: {'raw': v})
    ctx.clause('documented_errors', st.one_of(mutated, mutated, mutated, mutated, raw),
               check_documented_errors, ctx.n(800, 300000), nontrivial=nontrivial, labels=labels)
    ctx.clause('bad_out_event', bad_out_event_case(), check_bad_out_event, ctx.n(300, 60000),
               nontrivial=lambda c: True, labels=lambda c: ['bad-out=' + c['kind']])
    if not ctx.quick and (ctx.shard is None or ctx.shard[0] == 0):
        try:
            from vf.props import c15_fuzz
        except ImportError:
            return
        c15_fuzz.run(ctx)
