"""C15 - the parser rejects malformed input only with its documented errors."""
import contextlib
import io

import orjson
from hypothesis import strategies as st

from vf import gen_doc, mutate_json
from vf.model import walk
from vf.runner import Fail
from vf.to_json import to_json

RULE = ('Hypothesis: well-formed documents (parser-level model generator of C05) with 1-4 structural '
        'mutations at drawn JSON paths (delete a key/item, retype a value, retag <class>, invalid '
        'identifier, empty list, duplicate an item, replace a subtree by arbitrary JSON), and '
        'arbitrary JSON values as whole documents; oracle: process() returns a FileContents or '
        'raises DznJsonError / NamespaceIdsTypeError, nothing else. Second clause: a well-formed '
        'document into which one out-event with a non-void reply or with an `out` formal is '
        'injected at a reachable interface must not parse. Non-trivial: first mutation >= 3 levels '
        'below the root; distinct by document hash. Thorough adds an atheris (libFuzzer) campaign '
        'on the same test function when atheris is importable.')
ASSUMPTIONS = ['documents are valid JSON (produced with orjson.dumps); nesting depth <= ~25',
               '`inout` formals on out events are not judged (the statement names `out` only)']
SHARDS = {'thorough': 16}


def allowed_errors():
    from dznpy.json_ast import DznJsonError
    from dznpy.scoping import NamespaceIdsTypeError
    return (DznJsonError, NamespaceIdsTypeError)


def parse_bytes(data):
    from dznpy.json_ast import DznJsonAst
    with contextlib.redirect_stdout(io.StringIO()):
        return DznJsonAst(data).process()


_LAST = [None, None]


def build_doc(case):
    if 'raw' in case:
        return case['raw'], [('raw', 0)]
    if _LAST[0] is case:
        return _LAST[1]
    doc = to_json(case['model'], gen_doc.noise_fn(case.get('noise') or {}))
    _LAST[0], _LAST[1] = case, mutate_json.apply(doc, case['mutations'])
    return _LAST[1]


def check_documented_errors(case):
    from dznpy.ast import FileContents
    doc, _ = build_doc(case)
    try:
        data = orjson.dumps(doc)
    except (orjson.JSONEncodeError, TypeError):  # not a JSON document: outside the domain
        return
    try:
        res = parse_bytes(data)
    except allowed_errors():
        return
    if not isinstance(res, FileContents):
        raise Fail(f'process() returned {type(res).__name__}', 'return-type')


@st.composite
def bad_out_event_case(draw):
    model = draw(gen_doc.doc_model(max_depth=3))
    itfs = [e for _, e in walk(model['root']) if e['k'] == 'interface']
    if not itfs:
        itf = draw(gen_doc.interface_decl())
        model['root'].append(itf)
        itfs = [itf]
    target = draw(st.integers(0, len(itfs) - 1))
    kind = draw(st.sampled_from(['valued', 'out-formal', 'both']))
    ev = {'name': draw(gen_doc.ident()), 'dir': 'out', 'ret': ['void'],
          'formals': draw(st.lists(gen_doc.formal(only_in=True), max_size=2))}
    if kind in ('valued', 'both'):
        ev['ret'] = draw(st.sampled_from([['bool'], ['Result'], ['My', 'Result'], ['int'],
                                          ['Void'], ['void', 'x']]))
    if kind in ('out-formal', 'both'):
        pos = draw(st.integers(0, len(ev['formals'])))
        ev['formals'].insert(pos, {'name': draw(gen_doc.ident()), 'type': draw(gen_doc.type_ref()),
                                   'dir': 'out'})
    return {'model': model, 'itf': target, 'event': ev, 'pos': draw(st.integers(0, 5)),
            'kind': kind}


def check_bad_out_event(case):
    import copy
    model = copy.deepcopy(case['model'])
    itfs = [e for _, e in walk(model['root']) if e['k'] == 'interface']
    itf = itfs[case['itf'] % len(itfs)]
    itf['events'].insert(case['pos'] % (len(itf['events']) + 1), case['event'])
    data = orjson.dumps(to_json(model))
    try:
        parse_bytes(data)
    except allowed_errors():
        return
    raise Fail(f'a document with an out event {case["event"]} was accepted', 'bad-out-accepted')


def nontrivial(case):
    if 'raw' in case:
        return False
    _, applied = build_doc(case)
    return bool(applied) and applied[0][1] >= 3


def labels(case):
    if 'raw' in case:
        return ['raw-json']
    _, applied = build_doc(case)
    return [f'op={a[0]}' for a in applied] + [f'first-depth={min(applied[0][1], 8)}',
                                              f'nmut={len(applied)}']


def run(ctx):
    mutated = st.fixed_dictionaries({'model': gen_doc.doc_model(max_depth=4),
                                     'noise': gen_doc.noise(), 'mutations': mutate_json.mutations})
    raw = gen_doc.json_junk.map(lambda v: {'raw': v})
    ctx.clause('documented_errors', st.one_of(mutated, mutated, mutated, mutated, raw),
               check_documented_errors, ctx.n(800, 300000), nontrivial=nontrivial, labels=labels)
    ctx.clause('bad_out_event', bad_out_event_case(), check_bad_out_event, ctx.n(300, 60000),
               nontrivial=lambda c: True, labels=lambda c: ['bad-out=' + c['kind']])
    if not ctx.quick and (ctx.shard is None or ctx.shard[0] == 0):
        try:
            from vf.props import c15_fuzz
        except ImportError:
            return
        c15_fuzz.run(ctx)
