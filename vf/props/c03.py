"""C03 - port configuration gives every exposed port exactly one semantics or is rejected."""
import itertools
import re

from hypothesis import strategies as st

from vf import cfgspec, gen_shell
from vf.model import EITHER, MUST_ACCEPT, MUST_REJECT, ports_semantics
from vf.runner import Fail

RULE = ('Exhaustive through the builder (clause cross_side: both sides over one name universe, so '
        'that a selection can name the other side\'s ports and both sides can be configured alike):  toy component with <= 3 ports per side (+ an injected '
        'requires port); per side every exposed port set (8) x every sts selection x every mts '
        'selection out of {ALL, REMAINING, NONE} + all non-empty subsets of {a,b,c,unknown} (18 x 18), '
        'the other side neutral: construction -> match -> Builder.build each. Thorough: the full '
        'product of both sides at construction+match level (6.7 M), every 100th case built. Sampled '
        '(Hypothesis): generated shell models with up to 6 ports and random selections incl. names of '
        'the other side / injected / unknown. Oracle: three-valued reference (vf/model.py '
        'ports_semantics): MUST_REJECT => AdvShellError and no files; MUST_ACCEPT => files, accessor '
        'types in the header == reference map, no accessor for injected ports. Non-trivial: >= 2 '
        'ports on a side and an explicit name set; distinct by canonical (ports, selection).')
ASSUMPTIONS = ['corners the statement leaves open are not judged (EITHER): naming an injected port, '
               'equal selections / (NONE, NONE) on a side without exposed ports, a syntactically mixed '
               'provides selection that yields one semantics',
               'port names are unique within the component']
SHARDS = {'quick': 16, 'thorough': 16}

NAMES = ['a', 'b', 'c']
WILD = ['ALL', 'REMAINING', 'NONE']
SUBSETS = [list(c) for r in range(1, 5) for c in itertools.combinations(NAMES + ['zz'], r)]
SELS = WILD + SUBSETS  # 18
EXPOSED = [list(c) for r in range(0, 4) for c in itertools.combinations(NAMES, r)]  # 8

ACCESSOR = re.compile(r'^\s*(?:::)?(?:\w+\s*::\s*)*Dzn\s*::\s*(Sts|Mts)\s*<[^>]+>\s*((?:Provides|Requires)\w+)\s*\(')


def toy_model(prov, req, injected, raw=False):
    """A component with the given provides/requires port names.  Ports named a, x, j and zz use
    interface I (fit for a multi-client configuration: Claim replies an enum, Do is a void in-event,
    Done is an out-event); a port named b uses IOut (out-events only: nothing inbound on a provides
    port), a port named c uses IIn (in-events only: nothing inbound on a requires port).  The
    semantics a port gets - and the accessor type that shows it - does not depend on the shape of
    its interface."""
    itf = {'k': 'interface', 'name': ['I'], 'types': [{'k': 'enum', 'name': ['R'], 'fields': ['Ok', 'No']}],
           'events': [
        {'name': 'Claim', 'dir': 'in', 'ret': ['R'], 'formals': []},
        {'name': 'Do', 'dir': 'in', 'ret': ['void'], 'formals': []},
        {'name': 'Done', 'dir': 'out', 'ret': ['void'], 'formals': []}]}
    iout = {'k': 'interface', 'name': ['IOut'], 'types': [], 'events': [
        {'name': 'Done', 'dir': 'out', 'ret': ['void'], 'formals': []},
        {'name': 'Gone', 'dir': 'out', 'ret': ['void'], 'formals': []}]}
    iin = {'k': 'interface', 'name': ['IIn'], 'types': [], 'events': [
        {'name': 'Do', 'dir': 'in', 'ret': ['void'], 'formals': []},
        {'name': 'Ask', 'dir': 'in', 'ret': ['bool'], 'formals': []}]}
    shape = {'b': ['IOut'], 'c': ['IIn']}
    pp, rp = ('', '') if raw else ('p', 'r')
    ports = [{'name': pp + n, 'type': shape.get(n, ['I']), 'dir': 'provides', 'injected': False}
             for n in prov]
    ports += [{'name': rp + n, 'type': shape.get(n, ['I']), 'dir': 'requires', 'injected': False}
              for n in req]
    ports += [{'name': rp + n, 'type': shape.get(n, ['I']), 'dir': 'requires', 'injected': True}
              for n in injected]
    comp = {'k': 'component', 'name': ['Comp'], 'ports': ports}
    return {'root': [itf, iout, iin, {'k': 'ns', 'ids': ['My'], 'elems': [comp]}], 'wd': '/w'}


_FC = {}


def toy_fc(prov, req, injected, raw=False):
    key = (tuple(prov), tuple(req), tuple(injected), raw)
    if key not in _FC:
        _FC[key] = cfgspec.parse_model(toy_model(prov, req, injected, raw))
    return _FC[key]


_SHARED = {'n': 0, 'b': None, 'first': {}, 'prev': None, 'forced': None}


def shared_builder(case=None):
    """Two out of three builds are done by one long-lived Builder instance (the parsed contents are
    shared between the cases of a layout as well): by C12 a build does not depend on earlier ones,
    so every case must get the verdict and semantics of *its own* configuration.  The first case
    built on the same parsed contents and the previous case are remembered, so that a failure can be
    written out with the history that a replay needs."""
    from dznpy.adv_shell import Builder
    if _SHARED['forced'] is not None:
        return _SHARED['forced']
    _SHARED['n'] += 1
    if _SHARED['n'] % 3 == 0:
        return None
    if _SHARED['b'] is None:
        _SHARED['b'] = Builder()
    if case is not None:
        key = layout_key(case)
        hist = [h for h in (_SHARED['first'].get(key), _SHARED['prev']) if h is not None]
        case['_hist'] = [dict(h) for h in hist]
        plain = {k: v for k, v in case.items() if not k.startswith('_') and k != 'history'}
        _SHARED['first'].setdefault(key, plain)
        _SHARED['prev'] = plain
    return _SHARED['b']


def layout_key(case):
    return repr((case.get('prov'), case.get('req'), case.get('inj'), bool(case.get('raw'))))


def pre(sel, prefix):
    return sel if isinstance(sel, str) else [prefix + n for n in sel]


def accessor_map(files):
    """{port capitalised name: 'STS'|'MTS'} parsed from the accessor declarations in the header."""
    hdr = [c for fn, c, _ in files if fn.endswith('.hh') and not fn.startswith('Dzn_')][0]
    out = {}
    for line in hdr.split('\n'):
        m = ACCESSOR.match(line)
        if m:
            out[m.group(2)] = m.group(1).upper()  # full accessor function name -> semantics
    return out


def judge(verdict, ref, spec, fc, prov, req, injected, build, case=None):
    """Run construction -> match (-> build) on the real code and compare with the reference."""
    from dznpy.adv_shell.types import AdvShellError, RuntimeSemantics
    stage = 'construct'
    try:
        pcfg = cfgspec.mk_ports_cfg(spec)
        stage = 'match'
        matched = pcfg.match(set(prov), set(req) | set(injected))
        got = {p: ('STS' if s == RuntimeSemantics.STS else 'MTS') for p, s in matched.value.items()}
        files = None
        if build:
            stage = 'build'
            kind, res = cfgspec.outcome(spec, fc=fc, builder=shared_builder(case))
            if kind == 'err':
                raise res
            files = res
    except AdvShellError as exc:
        if verdict == MUST_ACCEPT:
            raise Fail(f'valid configuration rejected at {stage}: {exc}; reference: {ref}',
                       f'rejected-valid@{stage}') from None
        return 'rejected'
    except Exception as exc:  # pylint: disable=broad-except
        if verdict == EITHER:
            return 'not-judged'
        raise Fail(f'{verdict}: {type(exc).__name__}: {exc!r} at {stage} instead of a configuration '
                   f'error / result; reference {ref}', f'{verdict}:{type(exc).__name__}@{stage}') \
            from None
    if verdict == MUST_REJECT and build:
        raise Fail(f'invalid configuration accepted (files produced); match gave {got}',
                   'accepted-invalid')
    if verdict == MUST_REJECT:
        return 'not-built'  # rejection may legitimately happen later, in build
    # accepted: every exposed port must carry the reference semantics
    exposed = list(prov) + list(req)
    for p in exposed:
        if p in ref and got.get(p) != ref[p]:
            raise Fail(f'port {p}: match gives {got.get(p)}, reference {ref[p]} ({got} vs {ref})',
                       'wrong-semantics')
    if files is not None and verdict == MUST_ACCEPT:
        acc = accessor_map(files)
        mcp = (spec.get('mc') or {}).get('port')
        want = {'Provides' + ('MultiClient' if p == mcp else '') + p[0].upper() + p[1:]: ref[p]
                for p in prov}
        want.update({'Requires' + p[0].upper() + p[1:]: ref[p] for p in req})
        if acc != want:
            raise Fail(f'accessors in the header {acc} != reference {want}', 'accessors')
        if len(files) != 8:
            raise Fail(f'{len(files)} files', 'file-count')
    return 'accepted'


def spec_for(prov_sel, req_sel, enc):
    return {'filename': '/x/Comp.dzn', 'suffix': 'Shell', 'enc': enc,
            'prov': {'sts': prov_sel[0], 'mts': prov_sel[1]},
            'req': {'sts': req_sel[0], 'mts': req_sel[1]}, 'mc': None, 'origin': 'CREATE',
            'copyright': '(c)', 'creator': None, 'prefix': None}


def check_case(case):
    if case.get('history') and _SHARED['forced'] is None:
        # replay of a failure seen under the long-lived Builder: its history first, same Builder
        from dznpy.adv_shell import Builder
        _SHARED['forced'] = Builder()
        try:
            for h in case['history']:
                try:
                    check_case(dict(h))
                except Exception:  # pylint: disable=broad-except
                    pass
            check_case({k: v for k, v in case.items() if k != 'history'})
        finally:
            _SHARED['forced'] = None
        return
    try:
        check_case_1(case)
    except Fail:
        hist = case.pop('_hist', None)
        if hist:
            case['history'] = hist
        raise
    finally:
        case.pop('_hist', None)


def check_case_1(case):
    prov, req, inj = case['prov'], case['req'], case['inj']
    pp, rp = ('', '') if case.get('raw') else ('p', 'r')
    ps = (pre(case['psel'][0], pp), pre(case['psel'][1], pp))
    rs = (pre(case['rsel'][0], rp), pre(case['rsel'][1], rp))
    pn, rn, jn = [pp + n for n in prov], [rp + n for n in req], [rp + n for n in inj]
    verdict, ref = ports_semantics(ps, rs, pn, rn, jn)
    spec = spec_for(ps, rs, ['My', 'Comp'])
    if case.get('mc'):
        # multi-client on provides port p<mc>: valid only if that port ends up multi-threaded
        spec['mc'] = {'port': 'p' + case['mc'], 'claim': 'Claim', 'grant': ['Ok'], 'release': 'Do'}
        if verdict != MUST_REJECT and ref.get('p' + case['mc']) != 'MTS':
            verdict = MUST_REJECT
    fc = toy_fc(prov, req, inj, bool(case.get('raw'))) if case['build'] else None
    judge(verdict, ref, spec, fc, pn, rn, jn, case['build'], case)


def side_cases():
    """Per-side exhaustive enumeration, other side neutral, every case built."""
    for exposed in EXPOSED:
        for s in SELS:
            for m in SELS:
                # provides side under test; no requires ports
                yield {'prov': exposed, 'req': [], 'inj': [], 'psel': [s, m],
                       'rsel': ['NONE', 'ALL'], 'build': True}
                # requires side under test; one provides port, all-MTS resp. all-STS
                for k, neutral in enumerate((['NONE', 'ALL'], ['ALL', 'NONE'])):
                    yield {'prov': ['x'], 'req': exposed, 'inj': ['j'] if k else [],
                           'psel': neutral, 'rsel': [s, m], 'build': True}
    # the injected port named explicitly / covered by wildcards
    for exposed in EXPOSED:
        for s in WILD + [['j'], ['a', 'j']]:
            for m in WILD + [['j'], ['b', 'j']]:
                yield {'prov': ['x'], 'req': exposed, 'inj': ['j'], 'psel': ['NONE', 'ALL'],
                       'rsel': [s if isinstance(s, str) else list(s),
                                m if isinstance(m, str) else list(m)], 'build': True}


def mc_cases():
    """Every provides selection against a component whose provides port `a` carries a valid
    multi-client configuration (and 0-2 further provides ports)."""
    for exposed in (['a'], ['a', 'b'], ['a', 'b', 'c'], ['b', 'a', 'c']):
        for s in SELS:
            for m in SELS:
                yield {'prov': exposed, 'req': [], 'inj': [], 'psel': [s, m], 'rsel': ['NONE', 'ALL'],
                       'build': True, 'mc': 'a'}


def cross_cases():
    """Both sides at once over ONE name universe {a, b, c, zz}: a selection may name ports of the
    other side (which that side does not have) and the two sides may carry the very same
    selection.  All 18^4 selection pairs per layout; built when both sides are configured alike
    and every 50th otherwise."""
    i = 0
    for prov, req, inj in ((['a'], ['b'], []), (['a', 'b'], ['c'], []), (['a'], ['b', 'c'], []),
                           (['a'], ['b'], ['c'])):
        for ps in SELS:
            for pm in SELS:
                for rs in SELS:
                    for rm in SELS:
                        i += 1
                        yield {'prov': prov, 'req': req, 'inj': inj, 'psel': [ps, pm],
                               'rsel': [rs, rm], 'raw': True,
                               'build': (ps == rs and pm == rm) or i % 50 == 0}


def nontrivial(case):
    def side(ports, sel):
        return len(ports) >= 2 and any(isinstance(x, list) for x in sel)
    return side(case['prov'], case['psel']) or side(case['req'], case['rsel'])


def labels(case):
    pp, rp = ('', '') if case.get('raw') else ('p', 'r')
    ps = (pre(case['psel'][0], pp), pre(case['psel'][1], pp))
    rs = (pre(case['rsel'][0], rp), pre(case['rsel'][1], rp))
    verdict, _ = ports_semantics(ps, rs, [pp + n for n in case['prov']],
                                 [rp + n for n in case['req']], [rp + n for n in case['inj']])
    return ['verdict=' + verdict, 'built' if case['build'] else 'match-only']


def product_sweep(ctx):
    """Thorough: both sides at once, construction+match level, every 100th case built."""
    name = 'product'
    ctx.clauses_run.append(name)
    if ctx.replay is not None:
        if ctx.replay.get('clause') == name:
            ctx._run_one(name, check_case, ctx.replay['case'])  # pylint: disable=protected-access
        return
    i = 0
    seen = set()
    evals = nt = 0
    for pexp in EXPOSED:
        for ps in SELS:
            for pm in SELS:
                i += 1
                if not ctx.mine(i):
                    continue
                for rexp in EXPOSED:
                    for rs in SELS:
                        for rm in SELS:
                            evals += 1
                            case = {'prov': pexp, 'req': rexp, 'inj': [], 'psel': [ps, pm],
                                    'rsel': [rs, rm], 'build': evals % 100 == 0}
                            nt += nontrivial(case)
                            try:
                                check_case(case)
                            except Fail as f:
                                if f.sig not in seen:
                                    seen.add(f.sig)
                                    ctx.add_violation(name, f, case)
                                else:
                                    ctx.excluded[f'{name}:{f.sig}'] += 1
    ctx.count_enumerated(evals, nt, ['product'])


# ---- sampled beyond the bound: generated shell models, random selections

@st.composite
def sampled_case(draw):
    sm = draw(gen_shell.shell_model(force=draw(st.sampled_from(
        [['many_ports'], None, ['many_provides', 'mc_ready'], ['mc_ready', 'many_ports']]))))
    table = gen_shell.port_table(sm)
    prov = [p['name'] for p in table if p['dir'] == 'provides']
    req = [p['name'] for p in table if p['dir'] == 'requires' and not p['injected']]
    inj = [p['name'] for p in table if p['injected']]

    def sel(own, other):
        kind = draw(st.integers(0, 5))
        if kind <= 2:
            return WILD[kind]
        pool = own + own + (other[:1] if draw(st.integers(0, 4)) == 0 else []) + \
            (['nope'] if draw(st.integers(0, 5)) == 0 else [])
        if not pool:
            return draw(st.sampled_from(WILD))
        return draw(st.lists(st.sampled_from(pool), min_size=1, max_size=4, unique=True))
    mc = None
    cands = gen_shell.mc_candidates(sm)
    if cands and draw(st.integers(0, 2)) == 0:
        port, claim, enum, release = draw(st.sampled_from(cands))
        mc = {'port': port, 'claim': claim['name'], 'grant': [enum['elem']['fields'][0]],
              'release': release['name']}
    return {'sm': sm, 'psel': [sel(prov, req), sel(prov, req)],
            'rsel': [sel(req + inj, prov), sel(req + inj, prov)], 'mc': mc}


def check_sampled(case):
    sm = case['sm']
    table = gen_shell.port_table(sm)
    prov = [p['name'] for p in table if p['dir'] == 'provides']
    req = [p['name'] for p in table if p['dir'] == 'requires' and not p['injected']]
    inj = [p['name'] for p in table if p['injected']]
    verdict, ref = ports_semantics(tuple(case['psel']), tuple(case['rsel']), prov, req, inj)
    spec = spec_for(case['psel'], case['rsel'], sm['enc'])
    if case.get('mc'):
        # a (valid) multi-client setting does not give its port a semantics by itself; on a port
        # that ends up single-threaded it is an invalid setting and the build must fail
        spec['mc'] = case['mc']
        if verdict != MUST_REJECT and ref.get(case['mc']['port']) == 'STS':
            verdict = MUST_REJECT
    fc = cfgspec.parse_model(sm['model'])
    judge(verdict, ref, spec, fc, prov, req, inj, True)


def run(ctx):
    ctx.enumerate('per_side_exhaustive', side_cases(), check_case, nontrivial=nontrivial,
                  labels=labels)
    ctx.enumerate('with_multiclient', mc_cases(), check_case, nontrivial=nontrivial,
                  labels=lambda c: ['multi-client'] + labels(c))
    ctx.enumerate('cross_side', cross_cases(), check_case, nontrivial=nontrivial,
                  labels=lambda c: ['cross-side'] + labels(c) +
                  (['same-selection-both-sides'] if c['psel'] == c['rsel'] else []))
    ctx.exhaustive = True
    ctx.extra['exhaustive_part'] = 'per side: 8 exposed sets x 18 x 18 selections, every case built; ' \
                                   '4 provides layouts x 18 x 18 selections with a multi-client port; ' \
                                   '4 layouts x 18^4 selection pairs over one name universe (a ' \
                                   'selection may name ports of the other side)'
    if not ctx.quick:
        product_sweep(ctx)
        ctx.extra['exhaustive_part'] += '; both sides: (8 x 18 x 18)^2 at construction+match level'
    ctx.clause('sampled', sampled_case(), check_sampled, ctx.n(600, 40000),
               nontrivial=lambda c: any(isinstance(x, list) for x in c['psel'] + c['rsel']) and
               len(gen_shell.port_table(c['sm'])) >= 2,
               labels=lambda c: ['sampled'])
