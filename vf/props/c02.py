"""C02 - each port runs under exactly the runtime semantics it was configured with."""
from hypothesis import strategies as st

from vf import gen_cfg
from vf.cxx import farm
from vf.props import c01, c06
from vf.runner import Fail

RULE = ('Hypothesis draws shell models x configurations in every spelling the configuration language '
        'offers (ALL/NONE, REMAINING/NONE, explicit sets, explicit + REMAINING, both explicit; arbitrary '
        'STS/MTS partitions of the requires side; multi-client; both origins). The compiled shell '
        '(ASan+UBSan, detect_stack_use_after_return=1) is driven per event: MTS provides-in is called '
        'from a helper thread while the dispatcher is paused - it must have posted exactly one closure '
        'and still be blocked, and after resume the handler runs in dispatcher context and the reply '
        'comes back; MTS requires-out is raised with the dispatcher paused from a function that '
        'returns - the call returns at once with posted+1/executed+0 and after resume the component '
        'sees the original values exactly once; STS events run on the caller thread, never post, and '
        'accessor().port is the component\'s own port object. Accessor types are static_asserted. '
        'Non-trivial: an event on a model with both an STS and an MTS port; distinct by (model, port, '
        'event). evaluations counts events.')
ASSUMPTIONS = c06.ASSUMPTIONS + ['a closure posted to the mock pump while it is paused is not run '
                                 'before resume (harness-owned pump)']


from collections import Counter  # noqa: E402

INCONCLUSIVE = Counter()


def plan(info):
    steps = []
    for p in info.ports:
        nm, sem = p['name'], info.sem[p['name']]
        for ev in p['itf']['elem']['events']:
            if p['dir'] == 'provides' and ev['dir'] == 'in':
                kind = 'mts-in' if sem == 'MTS' else 'sts-in'
            elif p['dir'] == 'requires' and ev['dir'] == 'out':
                kind = 'mts-out' if sem == 'MTS' else 'sts-out'
            else:
                continue
            steps.append({'kind': kind, 'port': nm, 'ev': ev, 'mc': info.is_mc(p)})
    return steps


def script_for(info, steps):
    imp = int(not info.create)
    s = [f'locator {imp} {imp} 0 1', 'construct inst']
    if info.mc:
        s += ['client A -']
    s += ['bind -', 'final 0', 'addr']
    for i, st_ in enumerate(steps):
        nm, en = st_['port'], st_['ev']['name']
        s.append(f'mark s{i}')
        if st_['kind'] == 'mts-in':
            s += ['pause', (f'amccall A {nm} {en}' if st_['mc'] else f'acall {nm} {en}'),
                  'waitposted 1 3000', 'probe', 'resume', 'join', 'idle']
        elif st_['kind'] == 'mts-out':
            s += ['pause', f'raise {nm} {en}', 'probe', 'resume', 'idle']
        elif st_['kind'] == 'sts-in':
            s += [f'call {nm} {en}', 'idle']
        else:
            s += [f'raise {nm} {en}', 'idle']
    s.append('mark end')
    return s


def judge(info, st_, lines, what):
    ev = st_['ev']
    role = st_['kind']
    hs = [t for t in lines if t['k'] == 'h']
    cs = [t for t in lines if t['k'] == 'c']
    rs = [t for t in lines if t['k'] == 'r']
    notes = {t['what']: t for t in lines if t['k'] == 'note'}
    order = [(t['k'] if t['k'] != 'note' else t['what']) for t in lines]
    if len(cs) != 1 or len(rs) != 1:
        raise Fail(f'{what}: call did not complete: {order}', f'{role}:incomplete')
    if len(hs) != 1 or hs[0]['ev'] != ev['name']:
        raise Fail(f'{what}: {len(hs)} handler invocations ({[(h["port"], h["ev"]) for h in hs]})',
                   f'{role}:handler-count')
    h, c, r = hs[0], cs[0], rs[0]
    if h['args'] != c['args']:
        raise Fail(f'{what}: sent {c["args"]}, received {h["args"]}', f'{role}:arguments')
    if role.startswith('sts'):
        if h['disp'] or h['tid'] != c['tid']:
            raise Fail(f'{what}: single-threaded port but the handler ran on thread {h["tid"]} '
                       f'(dispatcher context: {h["disp"]}), caller thread {c["tid"]}',
                       f'{role}:not-on-caller-thread')
        if r['posted'] != c['posted']:
            raise Fail(f'{what}: single-threaded port but the dispatcher got '
                       f'{r["posted"] - c["posted"]} closure(s)', f'{role}:posted')
        return
    paused = notes['paused']
    if role == 'mts-in':
        probe, wp = notes.get('probe'), notes.get('waitposted')
        i_res_, i_r_ = order.index('resuming'), order.index('r')
        if not wp or not wp['ok']:
            # nothing was posted within the wait: decisive only if the call has already returned
            # (it bypassed the dispatcher); a helper thread that simply did not get to run yet on a
            # loaded machine is no verdict
            if i_r_ < i_res_ or (probe and probe['helpers_done'] > 0):
                raise Fail(f'{what}: the call returned while the dispatcher was paused and without '
                           f'posting anything to it ({order})', f'{role}:not-posted')
            INCONCLUSIVE['mts-in:helper-thread-not-scheduled-in-time'] += 1
            return
        if wp['posted'] != paused['posted'] + 1:
            raise Fail(f'{what}: multi-threaded provides event posted {wp["posted"] - paused["posted"]} '
                       f'closures to the dispatcher instead of one', f'{role}:not-posted')
        i_h, i_res, i_r = order.index('h'), order.index('resuming'), order.index('r')
        if i_r < i_res:
            raise Fail(f'{what}: the caller returned before the dispatcher ran the event ({order})',
                       f'{role}:caller-not-blocked')
        if i_h < i_res:
            raise Fail(f'{what}: the handler ran while the dispatcher was paused ({order})',
                       f'{role}:bypassed-dispatcher')
        if not (h['disp'] and h['own_pump']):
            raise Fail(f'{what}: handler did not run in the shell\'s dispatcher context '
                       f'(disp={h["disp"]}, own_pump={h["own_pump"]})', f'{role}:context')
        port = [p for p in info.ports if p['name'] == st_['port']][0]
        if r['ret'] != c01.reply_value(info, port, ev, h['ret']):
            raise Fail(f'{what}: reply {h["ret"]} did not come back ({r["ret"]})', f'{role}:reply')
        for i, f in enumerate(ev['formals']):
            want = c['args'][i] if f['dir'] == 'in' else 7000000 + h['n'] * 100 + i
            if r['args'][i] != want:
                raise Fail(f'{what}: {f["dir"]} argument {i} = {r["args"][i]}, expected {want}',
                           f'{role}:out-argument')
        return
    # mts-out: queued, returns immediately, runs later with the original values
    i_r, i_res, i_h = order.index('r'), order.index('resuming'), order.index('h')
    if i_r > i_res:
        raise Fail(f'{what}: raising the out-event blocked until the dispatcher ran ({order})',
                   f'{role}:blocked')
    if r['posted'] != paused['posted'] + 1 or r['executed'] != paused['executed']:
        raise Fail(f'{what}: expected exactly one queued closure at return: posted '
                   f'{paused["posted"]}->{r["posted"]}, executed {paused["executed"]}->{r["executed"]}',
                   f'{role}:not-queued')
    if i_h < i_res:
        raise Fail(f'{what}: the component saw the event before the dispatcher ran ({order})',
                   f'{role}:bypassed-dispatcher')
    if not (h['disp'] and h['own_pump']):
        raise Fail(f'{what}: handler not in dispatcher context', f'{role}:context')


def check_case(case, workdir=None):
    sm, spec, sem = case['sm'], case['spec'], case['semantics']
    pr = farm.Project(sm, spec, sem, workdir)
    try:
        try:
            pr.generate()
        except Exception as exc:  # pylint: disable=broad-except
            raise Fail(f'valid model/configuration rejected: {type(exc).__name__}: {exc}',
                       f'rejected:{type(exc).__name__}') from None
        info = pr.info
        try:
            exe = pr.build_driver('asan')
        except farm.BuildError as exc:
            c06.fail_build(exc, 'build: generated shell (static_assert on accessor types included)')
        steps = plan(info)
        rc, trace, err = pr.run_driver(exe, script_for(info, steps), 'asan', timeout=300)
        notes = [t for t in trace if t.get('k') == 'note']
        names = [t['what'] for t in notes]
        if 'AddressSanitizer' in err or 'runtime error:' in err or rc == 66:
            kind = 'stack-use-after-return' if 'stack-use-after-return' in err else \
                ('ubsan' if 'runtime error:' in err else 'asan')
            raise Fail(f'sanitizer report while driving the shell: {err[:1800]}', f'sanitizer:{kind}')
        if 'final-ok' not in names:
            raise Fail(f'set-up failed: {notes[:6]} {err[:300]}', 'setup-failed')
        if rc != 0 or 'end' not in names:
            raise Fail(f'driver exit status {rc}; stderr {err[:800]}', f'crash:{rc}')
        for t in notes:
            if t['what'] == 'addr':
                want = info.sem[t['port']] == 'STS'
                if t['same'] != want:
                    raise Fail(f'port {t["port"]} configured {info.sem[t["port"]]}: accessor().port '
                               f'{"is" if t["same"] else "is not"} the component\'s own port object',
                               'address-identity')
        win = c01.windows(trace)
        for i, st_ in enumerate(steps):
            judge(info, st_, win.get(f's{i}', []), f'{st_["kind"]} {st_["port"]}.{st_["ev"]["name"]}')
        both = {'STS', 'MTS'} <= set(sem.values())
        return [(s['kind'], s['port'], s['ev']['name'], both) for s in steps]
    finally:
        pr.cleanup()


def strata():
    # every spelling of a mixed requires side is forced in turn (stratified, not left to chance)
    forms = [gen_cfg.model_and_spec(force=['many_ports'], want_mixed=True, req_form=f)
             for f in ('both', 'sts+rem', 'rem+mts')]
    return [
        *forms,
        gen_cfg.model_and_spec(force=['many_ports', 'inout_mix'], want_mixed=True, req_form='sts+rem'),
        gen_cfg.model_and_spec(want_mc=True, force=['many_ports'], want_mixed=True),
        gen_cfg.model_and_spec(force=['many_provides']),
        gen_cfg.model_and_spec(force=['big'], want_mixed='SMM', prov_sem='MTS'),
        # one-way interfaces: ports without any inbound event, all of them multi-threaded
        gen_cfg.model_and_spec(force=['one_way_itf', 'many_ports'], prov_sem='MTS', want_mixed='M'),
        gen_cfg.model_and_spec(force=['one_way_itf'], prov_sem='MTS', want_mixed='MS'),
        gen_cfg.model_and_spec(force=['many_requires'], want_mixed='MSM', req_form='both'),
        gen_cfg.model_and_spec(force=['out_many_formals', 'shared_itf', 'many_ports']),
        gen_cfg.model_and_spec(force=['ref_extern', 'out_many_formals', 'many_ports'], want_mixed=True),
        gen_cfg.model_and_spec()]


def run(ctx):
    name = 'semantics'
    ctx.clauses_run.append(name)
    if ctx.replay is not None:
        if ctx.replay.get('clause') == name:
            ctx._run_one(name, lambda c: check_case(c), ctx.replay['case'])  # pylint: disable=protected-access,unnecessary-lambda
        return
    from vf.draw import draw_stratified
    from vf.runner import case_hash, load_regress
    cases = load_regress(ctx.prop, name) + gen_cfg.alternate_histories(
        draw_stratified(strata(), 32 if ctx.quick else 250, ctx.seed),
        ('edited', 'semantics', 'origin'))
    done = {}

    def check(case, workdir):
        done[id(case)] = check_case(case, workdir)
    c06.run_cases(ctx, name, cases, check)
    for case in cases:
        mh = case_hash([case['sm']['model'], case['spec']])
        for kind, port, ev, nt in done.get(id(case)) or []:
            ctx.record([mh, port, ev], nt, [kind])
        for lab in c06.labels(case):
            ctx.classes[lab] += 1
        spec = case['spec']
        for side in ('prov', 'req'):
            form = '/'.join('set' if isinstance(spec[side][k], list) else spec[side][k]
                            for k in ('sts', 'mts'))
            ctx.classes[f'{side}:{form}'] += 1
    ctx.extra['models'] = len(cases)
    for k, v in INCONCLUSIVE.items():
        ctx.inconclusive[k] += v
