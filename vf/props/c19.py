"""C19 - user text rendered as a comment can never become code."""
from hypothesis import strategies as st

from vf.props import c17
from vf.runner import Fail

RULE = ('(a) Hypothesis: hostile comment text (every line boundary, blank / whitespace-only lines, '
        'leading blanks, "*/", "#include", trailing backslashes, nested lists / dicts / text blocks); '
        'oracle: str(Comment(x)) has one line per reference line (C17 reference flattener), each '
        'starts with "//" and equals "// "+text modulo trailing whitespace; rendering is idempotent and '
        'leaves .lines unchanged; extend-then-render == render of the concatenation. (b) metamorphic: '
        'builds of generated (model, configuration) pairs that differ only in copyright / creator_info '
        'give identical file names and identical contents after deleting every line that starts with '
        '"//"; support files are identical; a line ending in a backslash is followed by a "//" line. '
        'Non-trivial: text with >= 2 physical lines and a boundary other than \\n; distinct by hash.')
ASSUMPTIONS = ['C++17 (no trigraphs)', 'reference line splitter of C17']
SHARDS = {'thorough': 16}

HOSTILE = ['*/', '/*', '#include <x>', '\\', 'int x;', '//', '"', 'a', ' ', '\t', '??/', '\\ ',
           '#define A', '}', ';']
hostile_text = st.lists(st.one_of(st.sampled_from(HOSTILE), st.sampled_from(c17.BREAKS + ['\r\n'])),
                        max_size=8).map(''.join)
hostile_content = st.recursive(
    st.one_of(st.none(), hostile_text, hostile_text, st.integers(0, 9)),
    c17._extend, max_leaves=6)  # pylint: disable=protected-access


def rendered_lines(s):
    if s == '':
        return []
    if not s.endswith('\n'):
        raise Fail(f'rendered comment does not end with a newline: {s!r}', 'no-eol')
    return s[:-1].split('\n')


def check_render(lines_out, ref, what):
    if len(lines_out) != len(ref):
        raise Fail(f'{what}: {len(ref)} comment lines expected, got {lines_out!r}', 'line-count')
    for o, l in zip(lines_out, ref):
        if any(b in o for b in c17.BREAKS):
            raise Fail(f'{what}: rendered line holds a line break: {o!r}', 'break')
        if not o.startswith('//'):
            raise Fail(f'{what}: line does not start with //: {o!r} (text {l!r})', 'not-comment')
        if o.rstrip(' \t') != ('// ' + l).rstrip(' \t'):
            raise Fail(f'{what}: line {o!r} does not carry the text {l!r}', 'text-changed')


def check_comment(case):
    from dznpy.cpp_gen import Comment
    a, b = case['a'], case['b']
    ra = c17.ref_lines(a)
    c = Comment(c17.real(a))
    if c.lines != ra:
        raise Fail(f'Comment.lines {c.lines!r} != {ra!r}', 'lines')
    first = str(c)
    check_render(rendered_lines(first), ra, 'first rendering')
    if c.lines != ra:
        raise Fail(f'rendering changed the comment object: {c.lines!r}', 'render-mutates')
    if str(c) != first:
        raise Fail('second rendering differs from the first', 'not-idempotent')
    # a copy of a comment is a comment: it renders the same text as comment lines
    import copy
    for how, dup in (('copy.copy', copy.copy(c)), ('copy.deepcopy', copy.deepcopy(c))):
        if str(dup) != first:
            raise Fail(f'{how} of the comment renders {str(dup)!r} instead of {first!r}', 'copy-renders')
    if c.lines != ra or str(c) != first:
        raise Fail('copying changed the comment object', 'copy-mutates')
    # extend, render again
    if case['how'] == 'append':
        c.append(c17.real(b))
    else:
        c += c17.real(b)
    rb = c17.ref_lines(b)
    check_render(rendered_lines(str(c)), ra + rb, 'rendering after extension')
    both = Comment([c17.real(a), c17.real(b)])
    if str(both) != str(c):
        raise Fail('extend-then-render differs from render of the concatenation', 'extend')
    # the same container object at several places of one comment text contributes every time
    twice = [a, 'mid', a, [b, a]]
    shared = Comment(c17.real(twice, share={}))
    check_render(rendered_lines(str(shared)), c17.ref_lines(twice), 'comment with shared containers')
    # the comment embedded in a larger block (as the generators do) keeps one '//' per line
    from dznpy.text_gen import TextBlock
    emb = TextBlock([Comment(c17.real(a)), 'int code;'])
    want = ra + ['int code;']
    if len(emb.lines) != len(want) or emb.lines[-1] != 'int code;':
        raise Fail(f'embedded comment: {emb.lines!r}', 'embedded')
    check_render(emb.lines[:-1], ra, 'embedded rendering')


# text blocks that carry a header, handed to Comment directly or nested in a list
headed_block = st.fixed_dictionaries({
    'content': hostile_content,
    'header': st.lists(hostile_text.filter(lambda t: t.strip() != ''), min_size=1, max_size=2),
    'wrap': st.sampled_from(['direct', 'list', 'nested'])})


def check_headed(case):
    """Whatever becomes of the header of a nested block, every rendered line is a comment line that
    carries one of the comment's own lines."""
    from dznpy.cpp_gen import Comment
    from dznpy.text_gen import TextBlock
    tb = TextBlock(c17.real(case['content']), header=list(case['header']))
    arg = tb if case['wrap'] == 'direct' else ([tb, 'tail'] if case['wrap'] == 'list' else
                                               TextBlock(tb))
    c = Comment(arg)
    before = list(c.lines)
    out = rendered_lines(str(c))
    check_render(out, before, f'Comment({case["wrap"]} headed TextBlock)')
    if c.lines != before or str(c) != ''.join(o + '\n' for o in out):
        raise Fail('rendering a comment built from a headed block is not repeatable', 'headed-repeat')
    emb = TextBlock([Comment(arg), 'int code;'])
    if emb.lines[-1] != 'int code;' or not all(l.startswith('//') for l in emb.lines[:-1]):
        raise Fail(f'embedded comment built from a headed block: {emb.lines!r}', 'headed-embedded')


def nontrivial_text(v):
    phys = c17.ref_lines(v)
    leaves = [x for x in c17.leaves(v) if isinstance(x, str)]
    return len(phys) >= 2 and any(b in s for s in leaves for b in c17.BREAKS[1:])


def run(ctx):
    n = ctx.n(2500, 300000)
    ctx.clause('comment', st.fixed_dictionaries({'a': hostile_content, 'b': hostile_content,
                                                 'how': st.sampled_from(['append', 'iadd'])}),
               check_comment, n, nontrivial=lambda c: nontrivial_text(c['a']),
               labels=lambda c: c17.labels_content(c['a']))
    ctx.clause('headed_block', headed_block, check_headed, max(1, n // 4),
               nontrivial=lambda c: len(c17.ref_lines(c['content'])) >= 1,
               labels=lambda c: ['headed-' + c['wrap']])
    try:
        from vf.props import c19_build  # part (b), needs the shell-model generator
    except ImportError:
        return
    c19_build.run(ctx)
