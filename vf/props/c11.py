"""C11 - generated multi-client support is correct under all thread interleavings."""
import os
import shutil
import tempfile
from concurrent.futures import ThreadPoolExecutor

from hypothesis import strategies as st

from vf import gen_cfg
from vf.cxx import driver, farm, sched_driver
from vf.props import c06
from vf.runner import Fail, HarnessError, case_hash

RULE = ('Two engines over generated multi-client models (compiled once per run), 2-3 client threads '
        'running claim/use/release cycles and an environment thread that makes the honest-arbiter mock '
        'component raise out-events. E2, harness-owned scheduler (one thread runs at a time, scheduling '
        'points: client steps, every post to the dispatcher, every dispatcher closure, every blocking '
        'wait, and the gap between a forwarded claim/release and the (de)selection): (i) bounded-'
        'exhaustive: every schedule with <= N deviations from the default run for 2 clients x 1 cycle + '
        '2 out-events (stateless DFS; N=2 quick, 3 thorough), (ii) Hypothesis-sampled programs and '
        'schedules (dense and sparse encodings) for up to 3 clients x 3 cycles. Oracle on the totally '
        'ordered trace: whenever an out-event is raised while client G is between "its granted claim '
        'returned" and "it calls release", exactly G receives it; no structural deadlock; all programs '
        'terminate. E1, free-running under ThreadSanitizer with generated perturbations: no data race / '
        'lock-order / double-lock report, same claim oracle on the emission-ordered trace. MutexWrapped '
        'alone (TSan): generated per-thread op lists; at most one thread inside, no lost increment, '
        're-acquire after reset() and after scope exit completes. Non-trivial: a run in which the '
        'operations of two clients overlap; distinct by (model, programs, schedule).')
ASSUMPTIONS = c06.ASSUMPTIONS + [
    'interleavings are explored at the granularity of the listed scheduling points; finer-grained '
    'races are the job of ThreadSanitizer on the free runs',
    'the arbiter component is honest (grants a claim iff nobody holds it) and clients release only a '
    'claim they were granted',
    'a scheduled run that does not finish within 20 s is counted inconclusive, not a violation']


def overlapped(trace):
    """Did the operations of two clients overlap (one between its call and return while another
    client took a step)?"""
    open_ops = {}
    for t in trace:
        if t.get('k') != 't':
            continue
        who, what = t['who'], t['what']
        if what.endswith('-call'):
            open_ops[who] = True
        elif what.endswith('-ret'):
            open_ops.pop(who, None)
        if who.startswith('K') and any(o != who for o in open_ops):
            return True
        if what == 'gap' and len(open_ops) >= 2:
            return True
    return False


def claim_oracle(trace, what, release_ev=None):
    """G = the client whose granted claim has returned to it, until the component has executed
    its release (the forwarded release call - the selector deselects only afterwards, so on the
    unchanged code no out-event raised in that window can miss G).  Without `release_ev` the
    window already ends when the client invokes release."""
    holder = None
    expecting = None
    delivered = []
    for t in trace:
        if t.get('k') == 'h' and release_ev is not None and t['side'] == 'comp' and \
                t['ev'] == release_ev and t['dir'] == 'in':
            holder = None  # the component executed the holder's release
            continue
        if t.get('k') != 't':
            continue
        w, who = t['what'], t['who']
        if w == 'claim-ret' and t['v'] == 1:
            if holder is not None and holder != who:
                raise Fail(f'{what}: two clients hold a granted claim ({holder}, {who}) - harness '
                           f'arbiter not honest?', 'harness-arbiter')
            holder = who
        elif w == 'release-call' and holder == who and release_ev is None:
            holder = None
        elif w == 'raise-begin':
            expecting = holder
            delivered = []
        elif w == 'deliver':
            delivered.append(who)
        elif w == 'raise-end':
            if expecting is not None and delivered != [expecting]:
                raise Fail(f'{what}: out-event raised while {expecting} holds the granted claim was '
                           f'delivered to {delivered}', 'lost-out-event' if not delivered else
                           'misdelivered-out-event')
            expecting = None
        elif w == 'error':
            raise Fail(f'{what}: selector reported an error: {who}', 'selector-error')
    return True


class Rig:
    """One multi-client model compiled for both engines."""

    def __init__(self, case, workdir):
        self.case = case
        self.pr = farm.Project(case['sm'], case['spec'], case['semantics'], workdir)
        try:
            self.pr.generate()
        except Exception as exc:  # pylint: disable=broad-except
            raise Fail(f'valid multi-client configuration rejected: {exc}', 'rejected') from None
        self.pr.write('sched_main.cc', sched_driver.generate(self.pr.info))
        self.release_ev = case['spec']['mc']['release']
        shell_cc = driver.shell_name(case['spec']) + '.cc'
        try:
            with ThreadPoolExecutor(max_workers=2) as ex:
                a = ex.submit(self.pr.compile, [shell_cc, 'sched_main.cc'], 'sched', 'none', 'g++',
                              ['-DVERIF_SCHED'])
                b = ex.submit(self.pr.compile, [shell_cc, 'sched_main.cc'], 'free_tsan', 'tsan')
                a.result()
                b.result()
        except farm.BuildError as exc:
            c06.fail_build(exc, 'build: multi-client shell for the scheduler / TSan drivers')

    def run_sched(self, schedule, programs):
        rc, so, se = farm.run_cmd([os.path.join(self.pr.dir, 'sched'), schedule, programs],
                                  self.pr.dir, timeout=40)
        return rc, parse_trace(so), se

    def run_sched_batch(self, jobs):
        """jobs: [(schedule, programs)] -> [(rc, trace, err text)] by one batch process (a forked
        child per schedule).  rc 'timeout' for a child killed by its alarm, 'skipped' after the
        batch stopped at a hang / deadlock."""
        import json
        if not jobs:
            return []
        data = ''.join(f'{s} {p}\n' for s, p in jobs)
        rc, so, se = farm.run_cmd([os.path.join(self.pr.dir, 'sched'), '--batch'], self.pr.dir,
                                  timeout=60 + 2 * len(jobs), stdin=data)
        out, trace, noise = [], [], []
        for line in so.splitlines():
            if line.startswith('{"k":"done"'):
                r = json.loads(line)['rc']
                r = 'timeout' if r == -14 else ('skipped' if r == 99 else ('no-verdict' if r == 98 else r))
                out.append((r, trace, '\n'.join(noise)[-1500:]))
                trace, noise = [], []
            elif line.startswith('{'):
                try:
                    trace.append(json.loads(line))
                except ValueError:
                    trace.append({'k': 'garbled'})
            elif line.strip():
                noise.append(line)
        if len(out) != len(jobs):
            raise HarnessError(f'scheduler batch returned {len(out)} results for {len(jobs)} jobs '
                               f'(rc={rc}): {se[-400:]}')
        return out

    def run_free(self, perturb, programs):
        rc, so, se = farm.run_cmd([os.path.join(self.pr.dir, 'free_tsan'), perturb, programs],
                                  self.pr.dir, timeout=30, env=farm.SAN_ENV['tsan'])
        return rc, parse_trace(so), se


def parse_trace(out):
    import json
    trace = []
    for line in out.splitlines():
        if line.startswith('{'):
            try:
                trace.append(json.loads(line))
            except ValueError:
                trace.append({'k': 'garbled'})
    return trace


def judge_sched(rig, schedule, programs, ctx_counts, result=None):
    what = f'schedule {schedule} programs {programs}'
    if ctx_counts.get('deadlock_seen') or (result is not None and result[0] == 'skipped'):
        # every deadlocking schedule costs ~12 s of waiting: once one is recorded, stop exploring
        raise Fail(f'{what}: skipped after a real deadlock was found in this run', 'deadlock-real')
    rc, trace, err = result if result is not None else rig.run_sched(schedule, programs)
    if rc == 'no-verdict':
        ctx_counts['inconclusive'] += 1
        return trace, None
    if rc == 'timeout' or rc == 4:
        # 4: an actor blocked on something the scheduler does not own, gating was dropped and the run
        # then completed: the schedule is not decisive (no verdict)
        ctx_counts['inconclusive'] += 1
        return trace, None
    if rc == 5:
        ctx_counts['deadlock_seen'] = True
        raise Fail(f'{what}: an actor blocked outside the scheduler\'s control and the programs did '
                   f'not complete even when running freely afterwards (deadlock)', 'deadlock-real')
    if rc == 3 or any(t.get('what') == 'deadlock' for t in trace if t.get('k') == 't'):
        dl = [t for t in trace if t.get('what') == 'deadlock']
        raise Fail(f'{what}: structural deadlock - unfinished actors, none runnable: {dl}', 'deadlock')
    if rc != 0 or not any(t.get('what') == 'end' for t in trace):
        raise Fail(f'{what}: run did not terminate normally (exit {rc}): {err[:500]}', f'crash:{rc}')
    claim_oracle(trace, what, rig.release_ev)
    dec = [t for t in trace if t.get('k') == 'decisions']
    return trace, (dec[0]['d'].split() if dec else [])


def dfs(rig, programs, bound, ctx_counts, record, limit):
    """Stateless enumeration of all schedules with <= bound deviations from the default run."""
    frontier = [()]
    seen = 0
    with ThreadPoolExecutor(max_workers=16) as ex:
        while frontier and seen < limit:
            if ctx_counts['inconclusive'] > 60:
                # the code under test blocks outside the scheduler's control at its scheduling
                # points (every such run costs seconds and yields no verdict): give up, inconclusive
                return seen, False
            batch, frontier = frontier[:4000], frontier[4000:]

            def chunk_job(pres):
                scheds = ['s:' + ','.join(f'{i}={a}' for i, a in pre) for pre in pres]
                results = rig.run_sched_batch([(s, programs) for s in scheds])
                return list(zip(pres, scheds, results))
            size = max(1, min(400, (len(batch) + 15) // 16))
            chunks = [batch[i:i + size] for i in range(0, len(batch), size)]
            flat = [x for part in ex.map(chunk_job, chunks) for x in part]
            for pre, sched, result in flat:
                trace, decisions = judge_sched(rig, sched, programs, ctx_counts, result)
                seen += 1
                record(sched, programs, trace)
                if decisions is None or len(pre) >= bound:
                    continue
                start = pre[-1][0] + 1 if pre else 0
                for d in decisions:
                    idx, runnable, pick, _default = d.split(':')
                    idx = int(idx)
                    if idx < start:
                        continue
                    for a in runnable.split('.'):
                        if a != pick:
                            frontier.append(pre + ((idx, int(a)),))
    return seen, not frontier


program = st.tuples(st.lists(st.tuples(st.integers(1, 3), st.integers(0, 2)), min_size=2, max_size=3),
                    st.integers(0, 4)).map(
    lambda t: ';'.join(f'{c}.{u}' for c, u in t[0]) + f';{t[1]}')
dense = st.lists(st.integers(0, 3), min_size=10, max_size=160).map(
    lambda l: 'd:' + ','.join(map(str, l)))
# pseudo-random walks: the seed is the generated input (r:<seed>,<stickiness in percent>)
walk = st.tuples(st.integers(0, 2 ** 31 - 1), st.sampled_from([0, 30, 50, 70, 85, 95])).map(
    lambda t: f'r:{t[0]},{t[1]}')
# the same walks with lock-granularity scheduling points (every mutex acquisition of the code under
# test is a decision, a held mutex blocks visibly): capital letter
walk_locks = st.tuples(st.integers(0, 2 ** 31 - 1), st.sampled_from([0, 30, 50, 70, 85, 95])).map(
    lambda t: f'R:{t[0]},{t[1]}')
sparse = st.lists(st.tuples(st.integers(0, 120), st.integers(0, 4)), max_size=8).map(
    lambda l: 's:' + ','.join(f'{i}={a}' for i, a in sorted(dict(l).items())))
perturb = st.lists(st.sampled_from([0, 0, 1, 1, 2, 5, 20, 40]), min_size=4, max_size=40).map(
    lambda l: 'p:' + ','.join(map(str, l)))

MUTEX_TEST = r'''
#include "%(hdr)s"
#include <atomic>
#include <chrono>
#include <iostream>
#include <string>
#include <thread>
#include <vector>
struct Guarded { long value = 0; std::atomic<int> inside{0}; };
static %(ns)s::MutexWrapped<Guarded> mw;
static std::atomic<int> overlaps{0};
static void enter(Guarded& g) { if (g.inside.fetch_add(1) != 0) ++overlaps; }
static void leave(Guarded& g) { g.inside.fetch_sub(1); }
static void run(const std::string& ops) {
  for (char c : ops) {
    if (c == 'I') { auto l = mw(); enter(*l); l->value++; leave(*l); }
    else if (c == 'Y') { auto l = mw(); enter(*l); std::this_thread::yield(); l->value++;
                         std::this_thread::sleep_for(std::chrono::microseconds(30)); leave(*l); }
    else if (c == 'R') { auto l = mw(); enter(*l); l->value++; leave(*l); l.reset();
                         auto l2 = mw(); enter(*l2); l2->value++; leave(*l2); }
    else if (c == 'S') { { auto l = mw(); enter(*l); l->value++; leave(*l); }
                         auto l2 = mw(); enter(*l2); l2->value++; leave(*l2); }
  }
}
int main(int argc, char** argv) {
  std::vector<std::thread> th;
  for (int i = 1; i < argc; ++i) th.emplace_back(run, std::string(argv[i]));
  for (auto& t : th) t.join();
  auto l = mw();
  std::cout << "total=" << l->value << " overlaps=" << overlaps.load() << std::endl;
  return 0;
}
'''
mutex_ops = st.lists(st.lists(st.sampled_from('IIYRS'), min_size=1, max_size=30).map(''.join),
                     min_size=1, max_size=4)


def explicit_schedule(rig, schedule, programs, fail):
    """A failing pseudo-random walk as an explicit sparse schedule (the deviations from the default
    run it took), greedily reduced while the same failure persists.  Falls back to the walk itself
    (which is deterministic as well) when the driver could not report its decisions."""
    if schedule[:2] not in ('r:', 'R:'):
        return schedule
    kind = 's:' if schedule[0] == 'r' else 'S:'
    _rc, trace, _err = rig.run_sched(schedule, programs)
    dec = [t for t in trace if t.get('k') == 'decisions']
    if not dec:
        return schedule
    dev = []
    for d in dec[0]['d'].split():
        idx, _runnable, pick, default = d.split(':')
        if pick != default:
            dev.append((int(idx), int(pick)))

    def fails(devs):
        s = kind + ','.join(f'{i}={a}' for i, a in devs)
        try:
            judge_sched(rig, s, programs, {'inconclusive': 0})
        except Fail as f2:
            return f2.sig == fail.sig
        return False
    if not fails(dev):
        return schedule
    i = 0
    while i < len(dev) and len(dev) > 1:
        cand = dev[:i] + dev[i + 1:]
        if fails(cand):
            dev = cand
        else:
            i += 1
    return kind + ','.join(f'{i}={a}' for i, a in dev)


def mutex_expected(threads):
    return sum({'I': 1, 'Y': 1, 'R': 2, 'S': 2}[c] for ops in threads for c in ops)


def check_mutex_case(case, exe_dir=None):
    own = exe_dir is None
    d = exe_dir or tempfile.mkdtemp(prefix='vf_c11m_')
    try:
        if own:
            build_mutex_test(d)
        rc, so, se = farm.run_cmd([os.path.join(d, 'mutex_tsan')] + case['threads'], d, timeout=20,
                                  env=farm.SAN_ENV['tsan'])
        if rc == 'timeout':  # milliseconds of work: once more, with a longer limit, before the verdict
            rc, so, se = farm.run_cmd([os.path.join(d, 'mutex_tsan')] + case['threads'], d, timeout=40,
                                      env=farm.SAN_ENV['tsan'])
        if rc == 'timeout':
            raise Fail(f'MutexWrapped: threads {case["threads"]} did not finish within 20 s and 40 s (lock not released '
                       f'on reset() / scope exit?)', 'mutex-hang')
        if 'ThreadSanitizer' in se or rc == 66:
            raise Fail(f'MutexWrapped: ThreadSanitizer report: {se[:1200]}', 'mutex-tsan')
        if rc != 0:
            raise Fail(f'MutexWrapped test exit {rc}: {se[:400]}', f'mutex-crash:{rc}')
        want = mutex_expected(case['threads'])
        if f'total={want} overlaps=0' not in so:
            raise Fail(f'MutexWrapped: {so.strip()} expected total={want} overlaps=0', 'mutex-exclusion')
    finally:
        if own:
            shutil.rmtree(d, ignore_errors=True)


def build_mutex_test(d):
    from dznpy.support_files import mutex_wrapped
    g = mutex_wrapped.create_header(None)
    with open(os.path.join(d, g.filename), 'w', encoding='utf-8') as fh:
        fh.write(g.contents)
    with open(os.path.join(d, 'mutex_test.cc'), 'w', encoding='utf-8') as fh:
        fh.write(MUTEX_TEST % {'hdr': g.filename, 'ns': '::Dzn'})
    rc, so, se = farm.run_cmd(['clang++-14', '-std=c++17', '-O1', '-g1', '-pthread', '-fsanitize=thread',
                               '-I', d, 'mutex_test.cc', '-o', 'mutex_tsan'], d)
    if rc != 0:
        if 'mutex_test.cc' in farm.first_diag(so + se):
            raise HarnessError('mutex test does not compile: ' + (so + se)[:1500])
        raise Fail('MutexWrapped header does not compile: ' + farm.first_diag(so + se), 'mutex-build')


def model_strategy():
    def usable(c):
        if not c['spec'].get('mc'):
            return False
        from vf import gen_shell
        for port, claim, enum, _rel in gen_shell.mc_candidates(c['sm']):
            if port == c['spec']['mc']['port'] and claim['name'] == c['spec']['mc']['claim']:
                p = [q for q in gen_shell.port_table(c['sm']) if q['name'] == port][0]
                outs = [e for e in p['itf']['elem']['events'] if e['dir'] == 'out']
                return len(enum['elem']['fields']) >= 2 and bool(outs)
        return False
    return st.one_of(gen_cfg.model_and_spec(want_mc=True, force=['out_many_formals']),
                     gen_cfg.model_and_spec(want_mc=True)).filter(usable)


def replay_case(case):
    """case kinds: {'engine': 'sched'|'free', model..., 'schedule', 'programs'} | {'engine':'mutex'}"""
    if case['engine'] == 'mutex':
        check_mutex_case(case)
        return
    d = tempfile.mkdtemp(prefix='vf_c11r_')
    try:
        rig = Rig(case, d)
        if case['engine'] == 'sched':
            counts = {'inconclusive': 0}
            judge_sched(rig, case['schedule'], case['programs'], counts)
        else:
            for _ in range(20):
                judge_free(rig, case['schedule'], case['programs'])
    finally:
        shutil.rmtree(d, ignore_errors=True)


FREE_ABORT = {}


def judge_free(rig, pert, programs):
    hangs = 0
    if FREE_ABORT.get('deadlock'):
        raise Fail('free run skipped after a deadlock was found in this run', 'free-deadlock')
    while True:
        rc, trace, err = rig.run_free(pert, programs)
        what = f'free run, perturbation {pert}, programs {programs}'
        if rc == 'timeout':
            hangs += 1
            if hangs >= 2:
                FREE_ABORT['deadlock'] = True
                raise Fail(f'{what}: did not finish within 30 s, twice (deadlock)', 'free-deadlock')
            continue
        break
    if 'ThreadSanitizer' in err or rc == 66:
        kind = 'data-race' if 'data race' in err else ('lock-order' if 'lock-order' in err else
                                                       ('double-lock' if 'double lock' in err else 'tsan'))
        raise Fail(f'{what}: ThreadSanitizer report: {err[:2500]}', f'tsan:{kind}')
    if rc != 0 or not any(t.get('what') == 'end' for t in trace):
        raise Fail(f'{what}: exit {rc}: {err[:500]}', f'free-crash:{rc}')
    claim_oracle(trace, what, rig.release_ev)
    return trace


def run(ctx):
    if ctx.replay is not None:
        ctx.clauses_run.append(ctx.replay.get('clause'))
        ctx._run_one(ctx.replay.get('clause'), replay_case, ctx.replay['case'])  # pylint: disable=protected-access
        return
    from vf.draw import draw_cases
    from vf.runner import load_regress
    quick = ctx.quick
    models = draw_cases(model_strategy(), 2 if quick else 3, ctx.seed)
    work = tempfile.mkdtemp(prefix='vf_c11_')
    counts = {'inconclusive': 0}
    try:
        rigs = []
        for i, m in enumerate(models):
            d = os.path.join(work, f'm{i}')
            os.makedirs(d)
            try:
                rigs.append(Rig(m, d))
            except Fail as f:
                ctx.add_violation('build', f, m)
            except HarnessError:
                if 'dict_names' not in m['sm'].get('features', []):
                    raise
                ctx.inconclusive['dictionary-named model collides with harness / system header'] += 1
        seen_sigs = set()

        def violation(clause, f, case):
            sig = f'{clause}:{f.sig}'
            if sig in seen_sigs:
                ctx.excluded[sig] += 1
            else:
                seen_sigs.add(sig)
                ctx.add_violation(clause, f, case)

        def base_case(rig):
            return {'sm': rig.case['sm'], 'spec': rig.case['spec'], 'semantics': rig.case['semantics']}

        # regress: stored failing inputs first
        for clause in ('dfs', 'sampled_schedules', 'free_tsan', 'mutex_wrapped'):
            for case in load_regress(ctx.prop, clause):
                ctx.record(case, True, ['regress'])
                ctx._run_one(clause, replay_case, case)  # pylint: disable=protected-access

        # ---- E2 (i): bounded-exhaustive
        ctx.clauses_run.append('dfs')
        bound = 3
        complete = True
        for rig in rigs:
            mh = case_hash([rig.case['sm']['model'], rig.case['spec']])
            for programs in (['1.0;1.0;2'] if quick else ['1.0;1.0;2', '1.1;1.0;1']):
                def record(sched, progs, trace, mh=mh):
                    ctx.record([mh, progs, sched], overlapped(trace), ['dfs'])
                try:
                    _n, done = dfs(rig, programs, bound, counts, record, 60000 if quick else 400000)
                    complete = complete and done
                except Fail as f:
                    violation('dfs', f, dict(base_case(rig), engine='sched', programs=programs,
                                             schedule=f.msg.split(' ')[1]))
        ctx.exhaustive = complete
        ctx.extra['exhaustive_part'] = f'all schedules with <= {bound} deviations from the default run, ' \
                                       f'2 clients x 1 cycle + out-events, per model'

        # ---- E2 (ii): sampled programs and schedules
        ctx.clauses_run.append('sampled_schedules')
        n = 3000 if quick else 100000
        samples = draw_cases(st.tuples(program, st.one_of(dense, sparse, walk, walk, walk_locks,
                                                          walk_locks)), n, ctx.seed + 1,
                             oversample=1)
        for ri, rig in enumerate(rigs):
            mh = case_hash([rig.case['sm']['model'], rig.case['spec']])
            mine = samples[ri::len(rigs)]

            def chunk_job(part, rig=rig):
                out = []
                results = rig.run_sched_batch([(ps[1], ps[0]) for ps in part])
                for ps, result in zip(part, results):
                    try:
                        trace, _d = judge_sched(rig, ps[1], ps[0], counts, result)
                        out.append((ps, trace, None))
                    except Fail as f:
                        out.append((ps, None, f))
                return out
            size = max(1, min(200, (len(mine) + 15) // 16))
            with ThreadPoolExecutor(max_workers=16) as ex:
                parts = ex.map(chunk_job, [mine[i:i + size] for i in range(0, len(mine), size)])
                for ps, trace, f in [x for part in parts for x in part]:
                    if f is not None:
                        violation('sampled_schedules', f, dict(base_case(rig), engine='sched',
                                                               programs=ps[0],
                                                               schedule=explicit_schedule(rig, ps[1], ps[0], f)))
                        continue
                    ctx.record([mh, ps[0], ps[1]], overlapped(trace), ['sampled',
                               'clients=%d' % (ps[0].count(';'))])

        # ---- E1: free-running under ThreadSanitizer
        ctx.clauses_run.append('free_tsan')
        n = 60 if quick else 4000
        samples = draw_cases(st.tuples(program, perturb), n, ctx.seed + 2, oversample=1)
        for ri, rig in enumerate(rigs):
            mh = case_hash([rig.case['sm']['model'], rig.case['spec']])

            def job2(ps, rig=rig):
                try:
                    return ps, judge_free(rig, ps[1], ps[0]), None
                except Fail as f:
                    return ps, None, f
            with ThreadPoolExecutor(max_workers=8) as ex:
                for ps, trace, f in ex.map(job2, samples[ri::len(rigs)]):
                    if f is not None:
                        violation('free_tsan', f, dict(base_case(rig), engine='free', programs=ps[0],
                                                       schedule=ps[1]))
                        continue
                    ctx.record([mh, ps[0], ps[1], 'free'], overlapped(trace), ['free-tsan'])

        # ---- MutexWrapped alone
        ctx.clauses_run.append('mutex_wrapped')
        md = os.path.join(work, 'mutex')
        os.makedirs(md)
        try:
            build_mutex_test(md)
            cases = [{'engine': 'mutex', 'threads': t} for t in
                     draw_cases(mutex_ops, 150 if quick else 4000, ctx.seed + 3, oversample=1)]

            hung = []

            def job3(case):
                try:
                    if hung:
                        # every hanging case costs its 60 s time-out: one report is enough
                        raise Fail('MutexWrapped: skipped after a hang was found in this run',
                                   'mutex-hang')
                    check_mutex_case(case, md)
                    return case, None
                except Fail as f:
                    if f.sig == 'mutex-hang':
                        hung.append(1)
                    return case, f
            with ThreadPoolExecutor(max_workers=8) as ex:
                for case, f in ex.map(job3, cases):
                    ctx.record(case, len(case['threads']) >= 2 and
                               any(c in ''.join(case['threads']) for c in 'RS'), ['mutex'])
                    if f is not None:
                        violation('mutex_wrapped', f, case)
        except Fail as f:
            violation('mutex_wrapped', f, {'engine': 'mutex', 'threads': ['I']})
    finally:
        shutil.rmtree(work, ignore_errors=True)
    ctx.inconclusive['scheduled-run-timeout'] = counts['inconclusive']
    ctx.extra['models'] = len(models)

