"""Thorough-tier deepening of C15: a coverage-guided campaign (atheris 3.1 / libFuzzer) on the
same oracle.  Skipped silently (and said so in the evidence) when atheris is not importable."""
import json
import os
import re
import shutil
import subprocess
import sys
import tempfile

from vf.runner import REPO_SRC, VERIF_DIR, Fail


def run(ctx, runs=None):
    try:
        import atheris  # noqa: F401  pylint: disable=unused-import,import-outside-toplevel
    except ImportError:
        ctx.extra['atheris'] = 'not importable: campaign skipped'
        return
    ctx.clauses_run.append('atheris_campaign')
    runs = runs or (20000 if ctx.quick else 400000)
    work = tempfile.mkdtemp(prefix='vf_c15fuzz_')
    try:
        crash = os.path.join(work, 'crash.json')
        corpus = os.path.join(work, 'corpus')
        os.makedirs(corpus)
        env = dict(os.environ)
        env['PYTHONPATH'] = os.pathsep.join([REPO_SRC, VERIF_DIR, os.path.join(VERIF_DIR, '.deps')])
        cmd = [sys.executable, '-m', 'vf.fuzz_c15', crash, f'-runs={runs}', f'-seed={ctx.seed}',
               '-max_len=256', '-print_final_stats=1', f'-artifact_prefix={work}/', corpus]
        r = subprocess.run(cmd, cwd=VERIF_DIR, env=env, capture_output=True, text=True,
                           timeout=3600, check=False)
        out = r.stderr + r.stdout
        m = re.search(r'stat::number_of_executed_units:\s*(\d+)', out)
        execs = int(m.group(1)) if m else 0
        cov = re.findall(r'cov: (\d+)', out)
        ctx.evaluations += execs
        ctx.extra['atheris'] = {'executions': execs, 'final_cov': int(cov[-1]) if cov else None,
                                'corpus_files': len(os.listdir(corpus)), 'runs_requested': runs}
        ctx.classes['atheris-exec'] += execs
        if os.path.exists(crash):
            with open(crash, encoding='utf-8') as fh:
                doc = json.load(fh)
            ctx.add_violation('documented_errors', Fail('[atheris] ' + doc['msg'], doc['sig']),
                              doc['case'])
        elif r.returncode != 0:
            ctx.inconclusive['atheris-exit-%d' % r.returncode] += 1
            ctx.extra['atheris']['tail'] = out[-400:]
    finally:
        shutil.rmtree(work, ignore_errors=True)
