"""C04 - a multi-client port delivers out-events only to the client holding the claim."""


from hypothesis import strategies as st

from vf import gen_cfg
from vf.cxx import farm
from vf.model import declarations, lookup
from vf.props import c01, c06, c13
from vf.runner import Fail

RULE = ('Outer: Hypothesis draws models with a multi-client capable provides port (claim event with '
        'enum reply, void release event - arbitrary names and formals, interfaces that also contain '
        'events literally called Claim/Release that are not the configured ones, enum nested / outer, '
        'every field as granting value) and compiles the shell once. Inner: model-based generation of '
        'histories (operation sequences as data: claim(client, reply) / release(client) / other(client, '
        'event) / raise(out-event), 1-4 registered clients, honest-arbiter or arbitrary reply policy), '
        'each run against the compiled driver. Oracle: reference claim model Q (granted and not '
        'released since, ordered by grant): every component out-event reaches exactly the most recent '
        'grantee in Q (nobody if Q is empty; after the most recent grantee released while overruled '
        'earlier grantees remain: at most one client and only members of Q); '
        'every client in-event produces exactly one component-side entry in dispatcher context with '
        'equal arguments and its reply / out values come back to that client. Failing histories are '
        'delta-debugged. Non-trivial: a history with >= 2 clients containing a grant, an out-event and '
        'a release; distinct by (model, history). evaluations counts history steps.')
ASSUMPTIONS = c06.ASSUMPTIONS + ['release events reply void',
                                 'invalid multi-client settings (unknown port / event, non-enum reply, '
                                 'value not a field, STS port) are enumerated by C13 and sampled here']

op = st.fixed_dictionaries({'op': st.sampled_from(['claim', 'claim', 'release', 'release', 'other',
                                                   'raise', 'raise']),
                            'c': st.integers(0, 3), 'e': st.integers(0, 7), 'grant': st.booleans(),
                            # the component raises an out-event while it handles this in-event
                            'react': st.sampled_from([False, False, True])})
history = st.fixed_dictionaries({'clients': st.integers(1, 4),
                                 'naming': st.sampled_from(['K', 'K', 'prefix-desc', 'prefix-asc',
                                                            'reverse', 'padded']),
                                 'policy': st.sampled_from(['honest', 'honest', 'arbitrary']),
                                 'ops': st.lists(op, min_size=1, max_size=40)})


class McFacts:
    def __init__(self, info):
        self.info = info
        mc = info.mc
        self.port = [p for p in info.ports if info.is_mc(p)][0]
        evs = self.port['itf']['elem']['events']
        self.claim = [e for e in evs if e['name'] == mc['claim']][0]
        self.release = [e for e in evs if e['name'] == mc['release']][0]
        self.others = [e for e in evs if e['dir'] == 'in' and e is not self.claim and
                       e is not self.release]
        self.outs = [e for e in evs if e['dir'] == 'out']
        ed = lookup(declarations(info.sm['model']), self.claim['ret'], self.port['itf']['fqn'])[0]
        self.fields = ed['elem']['fields']
        self.grant = self.fields.index(mc['grant'][0])
        self.deny = [i for i in range(len(self.fields)) if i != self.grant]


def interpret(facts, hist):
    """history -> (script, expectations).  The reference claim model runs alongside."""
    nm = facts.port['name']
    from vf import gen_cfg
    clients = gen_cfg.client_names(hist.get('naming', 'K'), hist['clients'])
    imp = int(not facts.info.create)
    script = [f'locator {imp} {imp} 0 0', 'construct inst'] + [f'client {c} -' for c in clients] + \
        ['bind -', 'final 0']
    q = []  # granted and not released since, in order of granting
    stale = False  # the most recent grantee released while earlier (overruled) grantees remain:
    #                who - if anybody - holds the claim then is left open by the statement
    steps = []
    for i, o in enumerate(hist['ops']):
        c = clients[o['c'] % len(clients)]
        script.append(f'mark s{i}')
        if o['op'] == 'claim':
            if hist['policy'] == 'honest':
                grant = not q and True
                if q and not facts.deny:
                    # an arbiter that can only say yes cannot be honest: skip the claim
                    script.pop()
                    continue
            else:
                grant = o['grant'] or not facts.deny
            idx = facts.grant if grant else facts.deny[o['e'] % len(facts.deny)]
            react = None
            if o.get('react') and facts.outs:
                # the component raises an out-event while it handles the claim (before it replies):
                # it belongs to whoever holds the claim at that moment
                react = {'ev': facts.outs[o['e'] % len(facts.outs)], 'q': list(q), 'stale': stale}
                script.append(f'react {nm}.{facts.claim["name"]} {nm} {react["ev"]["name"]}')
            script += [f'force {nm}.{facts.claim["name"]} {idx}',
                       f'mccall {c} {nm} {facts.claim["name"]}', 'idle']
            if react:
                script.append('unreact')
            if grant:
                if c in q:
                    q.remove(c)
                q.append(c)
                stale = False  # a fresh grant: the most recent grantee is the holder
            steps.append({'i': i, 'kind': 'in', 'client': c, 'ev': facts.claim, 'forced': idx,
                          'q': list(q), 'react': react})
        elif o['op'] == 'release':
            react = None
            if o.get('react') and facts.outs:
                react = {'ev': facts.outs[o['e'] % len(facts.outs)], 'q': list(q), 'stale': stale}
                script.append(f'react {nm}.{facts.release["name"]} {nm} {react["ev"]["name"]}')
            script += [f'mccall {c} {nm} {facts.release["name"]}', 'idle']
            if react:
                script.append('unreact')
            if c in q:
                if q[-1] == c and len(q) > 1:
                    stale = True
                q.remove(c)
            stale = stale and bool(q)
            steps.append({'i': i, 'kind': 'in', 'client': c, 'ev': facts.release, 'q': list(q),
                          'react': react})
        elif o['op'] == 'other':
            if not facts.others:
                script.pop()
                continue
            ev = facts.others[o['e'] % len(facts.others)]
            react = None
            if o.get('react') and facts.outs:
                react = {'ev': facts.outs[(o['e'] // 2) % len(facts.outs)], 'q': list(q),
                         'stale': stale}
                script.append(f'react {nm}.{ev["name"]} {nm} {react["ev"]["name"]}')
            script += [f'mccall {c} {nm} {ev["name"]}', 'idle']
            if react:
                script.append('unreact')
            steps.append({'i': i, 'kind': 'in', 'client': c, 'ev': ev, 'q': list(q), 'react': react})
        else:
            if not facts.outs:
                script.pop()
                continue
            ev = facts.outs[o['e'] % len(facts.outs)]
            script += [f'pcomp {nm} {ev["name"]}', 'idle']
            steps.append({'i': i, 'kind': 'out', 'ev': ev, 'q': list(q), 'stale': stale})
    script.append('mark end')
    return script, steps


def judge(facts, hist, steps, trace, rc, err):
    info = facts.info
    nm = facts.port['name']
    notes = [t for t in trace if t.get('k') == 'note']
    names = [t['what'] for t in notes]
    if 'final-ok' not in names:
        raise Fail(f'set-up failed: {notes[:8]} {err[:300]}', 'setup-failed')
    if rc != 0 or 'end' not in names:
        raise Fail(f'driver exit status {rc}: {err[:800]}', f'crash:{rc}')
    win = c01.windows(trace)
    for s in steps:
        lines = win.get(f's{s["i"]}', [])
        ev = s['ev']
        hs = [t for t in lines if t['k'] == 'h']
        cs = [t for t in lines if t['k'] == 'c']
        rs = [t for t in lines if t['k'] == 'r']
        what = f'step {s["i"]} ({s["kind"]} {ev["name"]}' + \
            (f' by {s["client"]}' if 'client' in s else '') + f', claim holders {s["q"]})'
        react = s.get('react')
        n_calls = 2 if react else 1
        if len(cs) != n_calls or len(rs) != n_calls:
            raise Fail(f'{what}: call did not complete: {[t for t in lines if t["k"] == "note"]}',
                       'incomplete')
        if react:
            # the out-event the component raised while handling this in-event: judged like any
            # other out-event, against the claim state *before* the in-event took effect
            inner = [t for t in cs if t['side'] == 'comp'][0]
            judge_out(nm, f'{what}, out-event {react["ev"]["name"]} raised while the component '
                      f'handled it (claim holders then {react["q"]})', react['ev'], react['q'],
                      react['stale'], [h for h in hs if h['side'] == 'user'], inner)
            cs = [t for t in cs if t['side'] != 'comp']
            rs = [t for t in rs if t['call'] == cs[0]['call']]
            hs = [h for h in hs if h['side'] != 'user']
        if s['kind'] == 'in':
            comp_h = [h for h in hs if h['side'] == 'comp']
            if len(comp_h) != 1 or comp_h[0]['port'] != nm or comp_h[0]['ev'] != ev['name'] or \
                    comp_h[0]['dir'] != 'in':
                raise Fail(f'{what}: component saw {[(h["port"], h["ev"]) for h in comp_h]}',
                           'in-event-routing')
            h, c, r = comp_h[0], cs[0], rs[0]
            if not (h['disp'] and h['own_pump']):
                raise Fail(f'{what}: not executed in dispatcher context', 'in-event-context')
            if h['args'] != c['args']:
                raise Fail(f'{what}: arguments {c["args"]} arrived as {h["args"]}', 'in-event-args')
            if r['ret'] != c01.reply_value(info, facts.port, ev, h['ret']):
                raise Fail(f'{what}: reply {h["ret"]} came back as {r["ret"]}', 'in-event-reply')
            for i, f in enumerate(ev['formals']):
                want = c['args'][i] if f['dir'] == 'in' else 7000000 + h['n'] * 100 + i
                if r['args'][i] != want:
                    raise Fail(f'{what}: {f["dir"]} argument {i} = {r["args"][i]}, want {want}',
                               'in-event-out-arg')
            if [x for x in hs if x['side'] == 'user']:
                raise Fail(f'{what}: a client handler fired during an in-event', 'in-event-spurious')
            continue
        # component out-event
        judge_out(nm, what, ev, s['q'], s.get('stale'), hs, cs[0])


def judge_out(nm, what, ev, q, stale, hs, call):
    delivered = [h['port'].split('@')[1] for h in hs if h['side'] == 'user' and
                 h['port'].startswith(nm + '@') and h['ev'] == ev['name']]
    stray = [h for h in hs if not (h['side'] == 'user' and h['port'].startswith(nm + '@') and
                                   h['ev'] == ev['name'])]
    if stray:
        raise Fail(f'{what}: other handlers fired: {[(h["side"], h["port"], h["ev"]) for h in stray]}',
                   'out-event-stray')
    if not stale:
        # the holder is the most recent grantee that has not released (nobody if there is none)
        want = q[-1:]
        if sorted(delivered) != sorted(want):
            raise Fail(f'{what}: out-event delivered to {delivered}, the claim is held by {want} '
                       f'(granted and not released: {q})',
                       'out-event-target' + ('-nobody' if not delivered else '-wrong'))
    else:
        if len(delivered) > 1 or any(d not in q for d in delivered):
            raise Fail(f'{what}: out-event delivered to {delivered}; granted clients {q}',
                       'out-event-target-multi')
    for h in hs:
        if h['side'] == 'user' and h['args'] != call['args']:
            raise Fail(f'{what}: out-event arguments {call["args"]} arrived as {h["args"]}',
                       'out-event-args')


def run_history(pr, exe, facts, hist, timeout=40):
    script, steps = interpret(facts, hist)
    rc, trace, err = pr.run_driver(exe, script, timeout=timeout)
    judge(facts, hist, steps, trace, rc, err)
    return steps


def minimise(pr, exe, facts, hist, sig):
    ops = list(hist['ops'])
    changed = True
    # a hanging history costs its whole time-out per trial: few trials, short time-out
    hang = 'timeout' in sig
    budget = 16 if hang else 300
    while changed and len(ops) > 1 and budget > 0:
        changed = False
        for i in range(len(ops)):
            trial = dict(hist, ops=ops[:i] + ops[i + 1:])
            budget -= 1
            try:
                run_history(pr, exe, facts, trial, timeout=10 if hang else 40)
            except Fail as f:
                if f.sig == sig:
                    ops = trial['ops']
                    changed = True
                    break
            if budget <= 0:
                break
    return dict(hist, ops=ops)


def stats(facts, hist):
    _script, steps = interpret(facts, hist)
    grant = any(s['kind'] == 'in' and s['ev'] is facts.claim and s.get('forced') == facts.grant
                for s in steps)
    rel = any(s['kind'] == 'in' and s['ev'] is facts.release for s in steps)
    out = any(s['kind'] == 'out' for s in steps)
    return len(steps), hist['clients'] >= 2 and grant and rel and out


def check_case(case, workdir=None):
    sm, spec, sem = case['sm'], case['spec'], case['semantics']
    pr = farm.Project(sm, spec, sem, workdir)
    try:
        try:
            pr.generate()
        except Exception as exc:  # pylint: disable=broad-except
            raise Fail(f'valid multi-client configuration rejected: {type(exc).__name__}: {exc}',
                       f'rejected:{type(exc).__name__}') from None
        info = pr.info
        try:
            exe = pr.build_driver()
        except farm.BuildError as exc:
            c06.fail_build(exc, 'build: multi-client shell')
        facts = McFacts(info)
        done = []
        for hist in case['histories']:
            try:
                run_history(pr, exe, facts, hist)
            except Fail as f:
                small = minimise(pr, exe, facts, hist, f.sig)
                f.case = dict(case, histories=[small])
                raise f
            done.append((hist, ) + stats(facts, hist))
        return done
    finally:
        pr.cleanup()


# ---- invalid multi-client settings are refused (python level, sampled; enumerated in C13)

MC_FAULTS = ['mc_unknown_port', 'mc_requires_port', 'mc_unknown_claim', 'mc_unknown_release',
             'mc_reply_void', 'mc_reply_bool', 'mc_reply_subint', 'mc_bad_value', 'mc_on_sts']


def check_invalid(case):
    faulted = c13.apply_fault(case['sm'], case['spec'], case['fault'], case['pick'])
    if faulted is None:
        return
    from vf import cfgspec
    kind, res = cfgspec.outcome(faulted[1], model=faulted[0]['model'])
    if kind == 'ok':
        raise Fail(f'{case["fault"]}: invalid multi-client settings accepted', f'{case["fault"]}:accepted')
    from dznpy.adv_shell.types import AdvShellError
    if not isinstance(res, AdvShellError):
        raise Fail(f'{case["fault"]}: {type(res).__name__}: {res} instead of a configuration error',
                   f'{case["fault"]}:{type(res).__name__}')


def strata():
    return [gen_cfg.model_and_spec(want_mc=True),
                     gen_cfg.model_and_spec(want_mc=True, force=['out_many_formals', 'inout_mix']),
                     gen_cfg.model_and_spec(want_mc=True, force=['outer_enum', 'partial_spelling']),
                     gen_cfg.model_and_spec(want_mc=True, force=['many_ports', 'global_enc']),
                     gen_cfg.model_and_spec(want_mc=True, force=['many_provides', 'prefix_ports']),
                     gen_cfg.model_and_spec(want_mc=True, force=['sub_events'])]


def with_histories(n_hist):
    return lambda base: st.tuples(base.filter(lambda c: c['spec'].get('mc')),
                     st.lists(history, min_size=n_hist, max_size=n_hist)).map(
        lambda t: {**t[0], 'histories': t[1]})


def run(ctx):
    name = 'histories'
    ctx.clauses_run.append(name)
    if ctx.replay is not None:
        if ctx.replay.get('clause') == name:
            ctx._run_one(name, lambda c: check_case(c), ctx.replay['case'])  # pylint: disable=protected-access,unnecessary-lambda
        elif ctx.replay.get('clause') == 'invalid_settings':
            ctx._run_one('invalid_settings', check_invalid, ctx.replay['case'])  # pylint: disable=protected-access
        return
    from vf.draw import draw_stratified
    from vf.runner import case_hash, load_regress
    n_models, n_hist = (16, 40) if ctx.quick else (60, 200)
    cases = load_regress(ctx.prop, name) + draw_stratified(strata(), n_models, ctx.seed,
                                                           wrap=with_histories(n_hist))
    done = {}

    def check(case, workdir):
        try:
            done[id(case)] = check_case(case, workdir)
        except Fail as f:
            if hasattr(f, 'case'):
                case.clear()
                case.update(f.case)
            raise
    c06.run_cases(ctx, name, cases, check)
    for case in cases:
        mh = case_hash([case['sm']['model'], case['spec']])
        for hist, nsteps, nt in done.get(id(case)) or []:
            ctx.record([mh, hist], nt, [hist['policy'], f'clients={hist["clients"]}'])
            ctx.evaluations += max(0, nsteps - 1)
        for lab in c06.labels(case):
            ctx.classes[lab] += 1
        mc = case['spec']['mc']
        ctx.classes['release-named-Release' if mc['release'] == 'Release' else 'release-other-name'] += 1
        ctx.classes['claim-named-Claim' if mc['claim'] == 'Claim' else 'claim-other-name'] += 1
    ctx.extra['models'] = len(cases)
    ctx.clause('invalid_settings', st.tuples(gen_cfg.model_and_spec(want_mc=True).filter(
        lambda c: c['spec'].get('mc')),
                                             st.sampled_from(MC_FAULTS), st.integers(0, 20)).map(
        lambda t: {'sm': t[0]['sm'], 'spec': t[0]['spec'], 'fault': t[1], 'pick': t[2]}),
        check_invalid, ctx.n(150, 5000), nontrivial=lambda c: True, labels=lambda c: [c['fault']])

