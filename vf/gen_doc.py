"""
Hypothesis strategies for *parser-level* models: everything the Dezyne grammar can produce as a
JSON AST, with no requirement that references resolve (C05, C14, C15, C16).
"""
from hypothesis import strategies as st

# small pool => names are reused in different scopes; plus forced identifier shapes
POOL = ['A', 'B', 'C', 'My', 'Sub', 'IFoo', 'IBar', 'Result', 'x', 'y', '_', '_a', 'T1', 'a_b',
        'Toaster', 'void', 'bool', 'Zz9', 'p', 'q']
ID_FIRST = 'abcxyzABCXYZ_'
ID_REST = 'abcxyzABCXYZ_0129'


SHAPES = ['a', 'Z', '_0', '__', '_A', 'a1', 'A_', 'aB', 'Ab', 'x9_', 'X' * 40, 'lower_case_name',
          'CamelCaseName', 'I', 'i', 'T2', 'T3', 'ns', 'Ns', 'NS', 'api', 'Api', 'hal', 'r', 'port',
          'identifier', 'in', 'out', 'extern', 'My_Project', 'a' * 13, 'Q7']


def dict_idents():
    """Identifier-shaped words from the string literals of the code under test (class tags, key
    names, 'void', names the generators introduce, ...): vf/dictionary.py."""
    from vf import dictionary
    return dictionary.words('short') or ['void']


def ident():
    return st.one_of(st.sampled_from(POOL + POOL + SHAPES), st.sampled_from(POOL + POOL + SHAPES),
                     st.sampled_from(POOL + POOL + SHAPES), st.sampled_from(dict_idents()))


def ids(min_size=1, max_size=3):
    return st.lists(ident(), min_size=min_size, max_size=max_size)


def decl_name():
    # a declaration is named by one identifier; two identifiers are rare but representable
    return st.one_of(ident().map(lambda x: [x]), ident().map(lambda x: [x]),
                     ident().map(lambda x: [x]), ids(2, 2))


def type_ref():
    return st.one_of(ident().map(lambda x: [x]), ids(1, 4))


plain_text = st.text(alphabet=st.characters(codec='utf-8', exclude_categories=['Cs']), max_size=12)


@st.composite
def formal(draw, only_in=False):
    return {'name': draw(ident()), 'type': draw(type_ref()),
            'dir': 'in' if only_in else draw(st.sampled_from(['in', 'out', 'inout']))}


@st.composite
def event(draw):
    direction = draw(st.sampled_from(['in', 'out']))
    if direction == 'out':
        return {'name': draw(ident()), 'dir': 'out', 'ret': ['void'],
                'formals': draw(st.lists(formal(only_in=True), max_size=3))}
    ret = draw(st.one_of(st.sampled_from([['void'], ['bool']]), type_ref()))
    return {'name': draw(ident()), 'dir': 'in', 'ret': ret,
            'formals': draw(st.lists(formal(), max_size=4))}


@st.composite
def port(draw):
    direction = draw(st.sampled_from(['provides', 'requires']))
    return {'name': draw(ident()), 'type': draw(type_ref()), 'dir': direction,
            'injected': direction == 'requires' and draw(st.integers(0, 3)) == 0}


@st.composite
def enum_decl(draw):
    return {'k': 'enum', 'name': draw(decl_name()),
            'fields': draw(st.lists(ident(), max_size=4))}


@st.composite
def subint_decl(draw):
    lo = draw(st.integers(-2 ** 40, 2 ** 40))
    return {'k': 'subint', 'name': draw(decl_name()), 'lo': lo,
            'hi': draw(st.integers(lo, lo + 2 ** 33))}


json_junk = st.recursive(
    st.one_of(st.none(), st.booleans(), st.integers(-5, 5), plain_text),
    lambda ch: st.one_of(st.lists(ch, max_size=3),
                         st.dictionaries(st.sampled_from(['name', 'elements', 'ids', 'x', 'types',
                                                          'ports', '<class>']), ch, max_size=3)),
    max_leaves=6)

UNKNOWN_CLASSES = ['behavior', 'bool', 'int', 'void', 'function', 'shell', 'bogus', 'Enum',
                   'interface ', 'name-space', '']


@st.composite
def unknown_decl(draw):
    junk = draw(st.dictionaries(st.sampled_from(['name', 'elements', 'ports', 'types', 'events',
                                                 'fields', 'range', 'value', 'location']),
                                json_junk, max_size=3))
    return {'k': 'unknown', 'cls': draw(st.sampled_from(UNKNOWN_CLASSES)), 'junk': junk}


@st.composite
def interface_decl(draw):
    types = draw(st.lists(st.one_of(enum_decl(), subint_decl(), enum_decl(), unknown_decl()),
                          max_size=3))
    return {'k': 'interface', 'name': draw(decl_name()), 'types': types,
            'events': draw(st.lists(event(), max_size=4))}


@st.composite
def component_decl(draw, kind='component'):
    return {'k': kind, 'name': draw(decl_name()), 'ports': draw(st.lists(port(), max_size=4))}


@st.composite
def endpoint(draw):
    return {'port': draw(ident()), 'inst': draw(st.one_of(st.none(), ident()))}


@st.composite
def system_decl(draw):
    return {'k': 'system', 'name': draw(decl_name()), 'ports': draw(st.lists(port(), max_size=3)),
            'instances': draw(st.lists(st.fixed_dictionaries({'name': ident(), 'type': type_ref()}),
                                       max_size=3)),
            'bindings': draw(st.lists(st.fixed_dictionaries({'left': endpoint(),
                                                             'right': endpoint()}), max_size=3))}


@st.composite
def extern_decl(draw):
    value = draw(st.one_of(st.sampled_from(['int', 'std::string', 'std::map<int, Foo>', '$size_t$',
                                            '']), plain_text))
    return {'k': 'extern', 'name': draw(decl_name()), 'value': value}


def leaf_elem(root_level):
    alts = [enum_decl(), subint_decl(), extern_decl(), interface_decl(), component_decl(),
            component_decl('foreign'), system_decl(), unknown_decl(),
            st.one_of(st.none(), st.integers(0, 3), plain_text, st.lists(st.integers(0, 1),
                                                                         max_size=2))
            .map(lambda v: {'k': 'raw', 'value': v})]
    if root_level:
        alts += [plain_text.map(lambda n: {'k': 'import', 'name': n + '.dzn'}),
                 plain_text.map(lambda n: {'k': 'filename', 'name': './' + n + '.dzn'})]
    else:
        # imports/file-names only occur at root level in dzn output, but the parser accepts
        # them anywhere; keep them rare below the root
        alts += [plain_text.map(lambda n: {'k': 'import', 'name': n})]
    return st.one_of(*alts)


@st.composite
def elems(draw, depth, root_level=False):
    """A list of scope elements; namespaces nest up to `depth` further levels."""
    n = draw(st.sampled_from([0, 1, 1, 2, 2, 3, 3, 4, 5, 6]) if root_level else st.integers(0, 4))
    out = []
    names_of_ns = []
    for _ in range(n):
        if depth > 0 and draw(st.booleans()):
            if names_of_ns and draw(st.integers(0, 2)) == 0:
                nsids = draw(st.sampled_from(names_of_ns))  # re-open a namespace
            else:
                if draw(st.booleans()):
                    # few names: the same local namespace name under different parents is common
                    nsids = draw(st.lists(st.sampled_from(['A', 'B', 'Hal', 'Types']), min_size=1,
                                          max_size=draw(st.sampled_from([1, 1, 1, 2]))))
                else:
                    nsids = draw(ids(1, 1)) if draw(st.integers(0, 3)) else draw(ids(2, 3))
                names_of_ns.append(nsids)
            out.append({'k': 'ns', 'ids': list(nsids), 'elems': draw(elems(depth - 1))})
        else:
            out.append(draw(leaf_elem(root_level)))
    return out


NOISE_KINDS = ['root', 'namespace', 'component', 'system', 'foreign', 'interface', 'enum', 'subint',
               'extern', 'port', 'ports', 'event', 'events', 'signature', 'formal', 'formals',
               'types', 'fields', 'range', 'data', 'instance', 'instances', 'binding', 'bindings',
               'end-point', 'import', 'file-name']
NOISE_KEYS = ['location', 'expression', 'behavior', 'remark', 'blocking?', 'external?', 'extra']


@st.composite
def noise(draw):
    """Extra keys per object kind, as real `dzn parse` output has them."""
    if draw(st.booleans()):
        return {}
    kinds = draw(st.lists(st.sampled_from(NOISE_KINDS), max_size=8, unique=True))
    return {k: draw(st.dictionaries(st.sampled_from(NOISE_KEYS), json_junk, min_size=1, max_size=2))
            for k in kinds}


@st.composite
def doc_model(draw, max_depth=6):
    depth = draw(st.sampled_from([0, 1, 2, 2, 3, 3, 4, max_depth]))
    model = {'root': draw(elems(depth, root_level=True)), 'wd': draw(plain_text)}
    if draw(st.booleans()):
        model['comment'] = draw(plain_text)
    if draw(st.integers(0, 5)) == 0:
        # twin subtrees: the very same elements (byte-identical in the document) inside an equally
        # named namespace under two different parents - same text, different fully qualified names
        import copy
        inner = [draw(interface_decl())] + draw(st.lists(leaf_elem(False), max_size=2))
        sub = [{'k': 'ns', 'ids': [draw(st.sampled_from(['Api', 'Hal', 'Types']))], 'elems': inner}]
        a, b = draw(st.sampled_from([('Alpha', 'Beta'), ('A', 'B'), ('Left', 'Right')]))
        model['root'] += [{'k': 'ns', 'ids': [a], 'elems': copy.deepcopy(sub)},
                          {'k': 'ns', 'ids': [b], 'elems': copy.deepcopy(sub)}]
    return model


def wrapped(model, outer):
    """The declarations and namespaces of `model` inside a namespace `outer`: the same elements
    under another fully qualified name."""
    import copy
    keep = [copy.deepcopy(e) for e in model['root'] if e['k'] not in ('import', 'filename', 'raw')]
    return {'root': [{'k': 'ns', 'ids': list(outer), 'elems': keep}], 'wd': model.get('wd', '')}


def noise_fn(noise_dict):
    return lambda kind: noise_dict.get(kind, {})


# ---- measurements on a model (used for non-triviality rules and class histograms)

def model_stats(model):
    from .model import declarations, walk
    stats = {'decls': len(declarations(model)), 'depth': 0, 'reopened': False, 'multi_id_ns': False,
             'unknown': False, 'nested_type': False, 'name_reuse': False}

    def rec(elems_, depth):
        seen = []
        for e in elems_:
            if e['k'] == 'ns':
                stats['depth'] = max(stats['depth'], depth + 1)
                if e['ids'] in seen:
                    stats['reopened'] = True
                seen.append(e['ids'])
                if len(e['ids']) > 1:
                    stats['multi_id_ns'] = True
                rec(e['elems'], depth + 1)
            elif e['k'] in ('unknown', 'raw'):
                stats['unknown'] = True
            elif e['k'] == 'interface':
                if any(t['k'] in ('enum', 'subint') for t in e['types']):
                    stats['nested_type'] = True
                if any(t['k'] == 'unknown' for t in e['types']):
                    stats['unknown'] = True
    rec(model['root'], 0)
    simple = [tuple(e['name'])[-1] for _, e in walk(model['root']) if 'name' in e and
              isinstance(e['name'], list)]
    stats['name_reuse'] = len(simple) != len(set(simple))
    return stats
