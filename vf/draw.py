"""Draw n *distinct* cases from a Hypothesis strategy, deterministically by seed (generate phase
only).  Used by compile-based checks, which run their cases in parallel outside of the Hypothesis
loop.  Hypothesis likes to produce very simple examples and repeats; since every compiled case costs
seconds we oversample four-fold, drop duplicates and keep a seed-determined subset."""
import hashlib
import json

import hypothesis
from hypothesis import HealthCheck, Phase, given, settings


def _key(case):
    return hashlib.sha1(json.dumps(case, sort_keys=True, default=repr).encode()).hexdigest()


def shape_key(case):
    """Coarse shape of a (shell model, configuration) case: near-duplicates (same port layout,
    same features, same spelling of the selections) collapse to one."""
    if not isinstance(case, dict) or 'sm' not in case or 'spec' not in case:
        return _key(case)
    from vf import gen_shell
    try:
        ports = tuple((p['dir'][0], p['injected'], len(p['itf']['elem']['events']) if p['itf'] else -1)
                      for p in gen_shell.port_table(case['sm']))
    except Exception:  # pylint: disable=broad-except
        ports = ()
    spec = case['spec']
    forms = tuple('set%d' % len(spec[s][k]) if isinstance(spec[s][k], list) else spec[s][k]
                  for s in ('prov', 'req') for k in ('sts', 'mts'))
    extra = tuple(sorted((k, json.dumps(v, sort_keys=True, default=repr)) for k, v in case.items()
                         if k not in ('sm', 'spec', 'semantics')))
    return json.dumps([ports, forms, bool(spec.get('mc')), spec['origin'], len(case['sm']['enc']),
                       sorted(case.get('semantics', {}).values()), extra], default=repr)


def draw_stratified(strategies, n, seed, wrap=None):
    """n distinct cases, drawn in equal parts from each strategy (every forced-feature family is
    represented whatever Hypothesis' one_of would have favoured); `wrap` maps a strategy to the
    strategy of full cases."""
    per = -(-n // len(strategies))
    out, seen = [], set()
    for i, strat in enumerate(strategies):
        got = draw_cases(wrap(strat) if wrap else strat, per, seed * 31 + i, key=shape_key)
        for c in got:
            k = shape_key(c)
            if k not in seen:
                seen.add(k)
                out.append(c)
    # interleave the strata so that a prefix of the list is still representative
    order = sorted(range(len(out)), key=lambda j: hashlib.sha1(f'{seed}:{j}'.encode()).hexdigest())
    return [out[j] for j in order][:n]


def draw_cases(strategy, n, seed, oversample=4, key=None):
    seen = {}
    key = key or _key

    @hypothesis.seed(seed)
    @settings(max_examples=max(n * oversample, n + 8), database=None, deadline=None,
              phases=[Phase.generate], suppress_health_check=list(HealthCheck), derandomize=False)
    @given(strategy)
    def collect(case):
        seen.setdefault(key(case), case)

    collect()
    keys = sorted(seen, key=lambda k: hashlib.sha1(f'{seed}:{k}'.encode()).hexdigest())
    return [seen[k] for k in keys[:n]]
