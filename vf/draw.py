"""Draw n *distinct* cases from a Hypothesis strategy, deterministically by seed (generate phase
only).  Used by compile-based checks, which run their cases in parallel outside of the Hypothesis
loop.  Hypothesis likes to produce very simple examples and repeats; since every compiled case costs
seconds we oversample four-fold, drop duplicates and keep a seed-determined subset."""
import hashlib
import json

import hypothesis
from hypothesis import HealthCheck, Phase, given, settings


def _key(case):
    return hashlib.sha1(json.dumps(case, sort_keys=True, default=repr).encode()).hexdigest()


def draw_cases(strategy, n, seed, oversample=4):
    seen = {}

    @hypothesis.seed(seed)
    @settings(max_examples=max(n * oversample, n + 8), database=None, deadline=None,
              phases=[Phase.generate], suppress_health_check=list(HealthCheck), derandomize=False)
    @given(strategy)
    def collect(case):
        seen.setdefault(_key(case), case)

    collect()
    keys = sorted(seen, key=lambda k: hashlib.sha1(f'{seed}:{k}'.encode()).hexdigest())
    return [seen[k] for k in keys[:n]]
