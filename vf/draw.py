"""Draw n cases from a Hypothesis strategy, deterministically by seed (generate phase only).
Used by compile-based checks, which run their cases in parallel outside of the Hypothesis loop."""
import hypothesis
from hypothesis import HealthCheck, Phase, given, settings


def draw_cases(strategy, n, seed):
    out = []

    @hypothesis.seed(seed)
    @settings(max_examples=n, database=None, deadline=None, phases=[Phase.generate],
              suppress_health_check=list(HealthCheck), derandomize=False)
    @given(strategy)
    def collect(case):
        out.append(case)

    collect()
    return out[:n]
