from vf.runner import entry

entry()
