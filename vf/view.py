"""
Reader of dznpy's parsed dataclasses into the plain structure of model.expected_file_contents.
Only attribute access on the objects handed out by the library; written independently of the
parser (it never looks at the JSON).
"""


def _ids(ns_ids):
    items = ns_ids.items
    if not isinstance(items, list) or not all(isinstance(x, str) for x in items):
        raise AssertionError(f'NamespaceIds.items is not a list of strings: {items!r}')
    return list(items)


def _ports(ports):
    return [{'name': p.name, 'type': _ids(p.type_name.value), 'dir': p.direction.name.lower(),
             'injected': p.injected.value} for p in ports.elements]


def _events(events):
    return [{'name': e.name, 'dir': e.direction.name.lower(),
             'ret': _ids(e.signature.type_name.value),
             'formals': [{'name': f.name, 'type': _ids(f.type_name.value),
                          'dir': f.direction.name.lower()}
                         for f in e.signature.formals.elements]} for e in events.elements]


def _base(d):
    return {'fqn': _ids(d.fqn), 'parent': _ids(d.parent_ns.fqn), 'name': _ids(d.name.value)}


def _enum(d):
    return {**_base(d), 'fields': list(d.fields.elements)}


def _subint(d):
    return {**_base(d), 'range': [d.range.from_int, d.range.to_int]}


def view(fc):
    from dznpy import ast  # pylint: disable=import-outside-toplevel
    out = {'components': [], 'enums': [], 'externs': [], 'filenames': [], 'foreigns': [],
           'imports': [], 'interfaces': [], 'subints': [], 'systems': []}
    for c in fc.components:
        out['components'].append({**_base(c), 'ports': _ports(c.ports)})
    for c in fc.foreigns:
        out['foreigns'].append({**_base(c), 'ports': _ports(c.ports)})
    for s in fc.systems:
        out['systems'].append({
            **_base(s), 'ports': _ports(s.ports),
            'instances': [{'name': i.name, 'type': _ids(i.type_name.value)}
                          for i in s.instances.elements],
            'bindings': [{'left': {'port': b.left.port_name, 'inst': b.left.instance_name},
                          'right': {'port': b.right.port_name, 'inst': b.right.instance_name}}
                         for b in s.bindings.elements]})
    for e in fc.enums:
        out['enums'].append(_enum(e))
    for s in fc.subints:
        out['subints'].append(_subint(s))
    for x in fc.externs:
        out['externs'].append({**_base(x), 'value': x.value.value})
    for i in fc.interfaces:
        types = []
        for t in i.types.elements:
            if isinstance(t, ast.Enum):
                types.append({'kind': 'enum', **_enum(t)})
            elif isinstance(t, ast.SubInt):
                types.append({'kind': 'subint', **_subint(t)})
            else:
                types.append({'kind': f'?{type(t).__name__}'})
        out['interfaces'].append({**_base(i), 'trail': _ids(i.ns_trail.fqn),
                                  'events': _events(i.events), 'types': types})
    for f in fc.filenames:
        out['filenames'].append({'name': f.name})
    for i in fc.imports:
        out['imports'].append({'name': i.name})
    return out


def first_difference(a, b, path='$'):
    """Human readable first difference between two plain structures (or None)."""
    if type(a) is not type(b):
        return f'{path}: {a!r} != {b!r}'
    if isinstance(a, dict):
        for k in sorted(set(a) | set(b)):
            if k not in a or k not in b:
                return f'{path}.{k}: present only on one side ({a.get(k)!r} vs {b.get(k)!r})'
            d = first_difference(a[k], b[k], f'{path}.{k}')
            if d:
                return d
        return None
    if isinstance(a, list):
        if len(a) != len(b):
            return f'{path}: length {len(a)} != {len(b)}: {a!r} vs {b!r}'[:600]
        for i, (x, y) in enumerate(zip(a, b)):
            d = first_difference(x, y, f'{path}[{i}]')
            if d:
                return d
        return None
    return None if a == b else f'{path}: {a!r} != {b!r}'
