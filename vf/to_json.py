"""
Independent serializer: abstract model (vf/model.py) -> Dezyne JSON AST (python dict), following
the shapes documented by /repo/test/unit_tests/testdata_json_ast.py.

`noise` (optional) is a function (kind:str) -> dict of extra keys that is merged into every object
of that kind, the way real `dzn parse` output carries `location`, `expression`, `behavior`, ...
"""


def sn(ids):
    return {'<class>': 'scope_name', 'ids': list(ids)}


class Serializer:
    def __init__(self, noise=None):
        self.noise = noise or (lambda kind: {})

    def _obj(self, kind, **kw):
        d = {'<class>': kind}
        d.update(kw)
        for k, v in self.noise(kind).items():
            d.setdefault(k, v)
        return d

    def formal(self, f):
        return self._obj('formal', name=f['name'], type_name=sn(f['type']), direction=f['dir'])

    def formals(self, fs):
        return self._obj('formals', elements=[self.formal(f) for f in fs])

    def event(self, ev):
        sig = self._obj('signature', type_name=sn(ev['ret']), formals=self.formals(ev['formals']))
        return self._obj('event', name=ev['name'], signature=sig, direction=ev['dir'])

    def port(self, p):
        d = self._obj('port', name=p['name'], type_name=sn(p['type']), direction=p['dir'],
                      formals=self.formals([]))
        if p.get('injected'):
            d['injected?'] = 'injected'
        return d

    def ports(self, ps):
        return self._obj('ports', elements=[self.port(p) for p in ps])

    def endpoint(self, ep):
        d = self._obj('end-point', port_name=ep['port'])
        if ep.get('inst') is not None:
            d['instance_name'] = ep['inst']
        return d

    def elem(self, e):
        k = e['k']
        if k == 'ns':
            return self._obj('namespace', name=sn(e['ids']),
                             elements=[self.elem(x) for x in e['elems']])
        if k == 'extern':
            return self._obj('extern', name=sn(e['name']),
                             value=self._obj('data', value=e['value']))
        if k == 'enum':
            return self._obj('enum', name=sn(e['name']),
                             fields=self._obj('fields', elements=list(e['fields'])))
        if k == 'subint':
            rng = self._obj('range')
            rng['from'] = e['lo']
            rng['to'] = e['hi']
            return self._obj('subint', name=sn(e['name']), range=rng)
        if k == 'interface':
            return self._obj('interface', name=sn(e['name']),
                             types=self._obj('types', elements=[self.elem(t) for t in e['types']]),
                             events=self._obj('events',
                                              elements=[self.event(ev) for ev in e['events']]))
        if k in ('component', 'foreign'):
            return self._obj(k, name=sn(e['name']), ports=self.ports(e['ports']))
        if k == 'system':
            return self._obj(
                'system', name=sn(e['name']), ports=self.ports(e['ports']),
                instances=self._obj('instances', elements=[
                    self._obj('instance', name=i['name'], type_name=sn(i['type']))
                    for i in e['instances']]),
                bindings=self._obj('bindings', elements=[
                    self._obj('binding', left=self.endpoint(b['left']),
                              right=self.endpoint(b['right'])) for b in e['bindings']]))
        if k == 'import':
            return self._obj('import', name=e['name'])
        if k == 'filename':
            return self._obj('file-name', name=e['name'])
        if k == 'unknown':
            d = dict(e.get('junk') or {})
            d['<class>'] = e['cls']
            return d
        if k == 'raw':
            return e['value']
        raise ValueError(f'unknown model element kind {k}')

    def root(self, model):
        d = self._obj('root', elements=[self.elem(e) for e in model['root']])
        d['working-directory'] = model.get('wd', '/work')
        if model.get('comment') is not None:
            d['comment'] = {'<class>': 'comment', 'string': model['comment']}
        return d


def to_json(model, noise=None):
    return Serializer(noise).root(model)
