"""
Hypothesis strategies for *builder-level* models: well-formed Dezyne models in which every
reference resolves under the rule of C07 (exactly one declaration on the scope chain), together
with an encapsulee and the facts the configuration generators need.

Generation is constructive and feature-forced: a draw first fixes a set of features the model must
exhibit, then builds a model that has them.  No assume()/filter() on whole models.

A *shell model* is {"model": <abstract model>, "enc": [fqn of the encapsulee], "enc_kind": ...}.
"""
from hypothesis import strategies as st

from vf import dictionary
from vf.model import declarations, lookup, spellings

CXX_KEYWORDS = set('''alignas alignof and and_eq asm auto bitand bitor bool break case catch char
char8_t char16_t char32_t class compl concept const consteval constexpr constinit const_cast
continue co_await co_return co_yield decltype default delete do double dynamic_cast else enum
explicit export extern false float for friend goto if inline int long mutable namespace new noexcept
not not_eq nullptr operator or or_eq private protected public register reinterpret_cast requires
return short signed sizeof static static_assert static_cast struct switch template this thread_local
throw true try typedef typeid typename union unsigned using virtual void volatile wchar_t while xor
xor_eq override final import module in out inout provides injected interface component system
behavior behaviour on reply illegal blocking subint dzn Dzn std main type meta'''.split())

# identifiers the generated C++ itself introduces (collisions are a listed finding, not generated)
GENERATED_LOCALS = {'r', 'identifier', 'port', 'lockAndData', 'm_dispatcher', 'm_encapsulee',
                    'm_runtime', 'm_locator', 'locator', 'prototypeLocator', 'multiclientLog',
                    'encapsuleeInstanceName', 'parentComponentMeta'}

G_NS_POOL = ['My', 'Project', 'Sub', 'Hal', 'a', 'b', 'N1', 'n_2', 'Types', 'X', 'Very_Long_Namespace_Name']
G_TYPE_POOL = ['IApi', 'IHw', 'Result', 'Info', 'T', 'Status', 'IApi', 'Result', 'ICtl', 'x1', 'E',
             'Long_Type_Name_0123456789', 'i', 'Msg', 'IHw']
G_COMP_POOL = ['Toaster', 'Ctl', 'C', 'comp_1', 'Heater', 'MySystem']
G_PORT_POOL = ['api', 'hw', 'hw2', 'cfg', 'p', 'Port', 'ctrl_1', 'q', 'heater', 'X', 'veryLongPortName_01',
             'api2', 'apiX']
PREFIX_PORT_POOL = ['api', 'api2', 'apiX', 'ap', 'hw', 'hw2', 'p', 'p1', 'p10']
G_EVENT_POOL = ['Claim', 'Release', 'Grab', 'Unclaim', 'Start', 'Stop', 'Ok', 'Fail', 'Tripped', 'On',
              'Get', 'e1', 'E', 'claim', 'release', 'Release_', 'Set_value', 'x']
G_FORMAL_POOL = ['info', 'why', 'x', 'n', 'msg', 'value', 'arg1', 'p_', 'Info', 'y', 'z']
G_FIELD_POOL = ['Ok', 'Fail', 'Error', 'Yes', 'No', 'f0', 'A', 'b', 'Busy']

# names the generated shell uses for its own members and helper types
API_NAMES = ['Locator', 'FinalConstruct', 'Dispatcher', 'Runtime', 'Sts', 'Mts', 'ILog', 'Arbitered',
             'MultiClientSelector', 'MutexWrapped', 'StrictPort']

# not usable as model identifiers in a dictionary draw: names of the harness' own C++ (namespaces of
# the mock runtime / recorder, members of the mock component and interface structs), macros of the
# standard headers, identifiers reserved to the C++ implementation
HARNESS_NAMES = {'xt', 'vf', 'vs', 'vf_inner_meta', 'vf_inner_event', 'dzn_meta', 'dzn_runtime', 'dzn_locator', 'check_bindings', 'connect',
                 'NULL', 'EOF', 'assert', 'errno', 'stdin', 'stdout', 'stderr', 'TRUE', 'FALSE', 'linux',
                 'unix', 'main', 'argc', 'argv', 'S'}


_HARNESS_WORDS = []


def harness_words():
    """Every identifier-shaped word in the harness' own C++ (the generators in vf/cxx, the mock
    runtime): a model must not use them, the collision would be the harness' fault."""
    if not _HARNESS_WORDS:
        import os
        import re
        here = os.path.dirname(os.path.abspath(__file__))
        files = [os.path.join(here, 'cxx', f) for f in os.listdir(os.path.join(here, 'cxx'))
                 if f.endswith('.py')]
        rt = os.path.join(os.path.dirname(here), 'mockrt')
        for d, _dirs, fs in os.walk(rt):
            files += [os.path.join(d, f) for f in fs]
        words = set()
        for fn in sorted(files):
            with open(fn, encoding='utf-8') as fh:
                words.update(re.findall(r'[A-Za-z_][A-Za-z0-9_]*', fh.read()))
        _HARNESS_WORDS.append(words)
    return _HARNESS_WORDS[0]


def dict_words():
    """Identifier-shaped words of the library's own string literals that a Dezyne model may use as a
    name and that neither the harness nor a listed finding excludes."""
    bad = CXX_KEYWORDS | GENERATED_LOCALS | HARNESS_NAMES | harness_words()
    def ok(w):
        # all-lower-case words are left to the parser-level generator: at namespace scope of a C++
        # translation unit they collide with C library / POSIX globals (select, index, time, link, ...)
        if w.islower() and w.isalpha():
            return False
        return w not in bad and '__' not in w and not (w[0] == '_' and (len(w) == 1 or w[1].isupper())) \
            and len(w) <= 24
    short = [w for w in dictionary.words('short') if ok(w)]
    rest = [w for w in dictionary.words('strings', exclude=short) if ok(w)]
    return short, rest


FEATURES = ['deep_ns', 'global_enc', 'shared_itf', 'empty_itf', 'no_ports', 'inout_mix',
            'out_many_formals', 'nested_enum', 'outer_enum', 'injected', 'same_name_siblings',
            'multi_id_ns', 'reopened_ns', 'system_enc', 'partial_spelling', 'distractors',
            'many_ports', 'subint_reply', 'bool_reply', 'mc_ready', 'ref_extern', 'prefix_ports', 'mirror_ns', 'many_provides', 'prefix_ns', 'many_requires', 'shadow_ns', 'repeat_ns', 'name_like_ns', 'api_names', 'dict_names', 'one_way_itf', 'big', 'sub_events']


def _uniq(draw, pool, taken, n=1):
    """Pick an identifier from pool that is not in `taken` (constructive: falls back to a
    numbered name)."""
    free = [p for p in dict.fromkeys(pool) if p not in taken and p not in CXX_KEYWORDS]
    if free:
        name = draw(st.sampled_from(free))
    else:
        name = f'{pool[0]}_{len(taken)}'
    taken.add(name)
    return name


@st.composite
def shell_model(draw, force=None, max_ports=6, collide=False):  # pylint: disable=too-many-locals,too-many-branches,too-many-statements
    feats = set(draw(st.lists(st.sampled_from(FEATURES), max_size=6, unique=True)))
    if force:
        feats |= set(force)
    if collide:
        feats |= {'same_name_siblings', 'distractors'}
    if 'dict_names' in feats:
        # names drawn from the literals of the code under test (vf/dictionary.py): a handful per
        # model, three quarters from the short literals (names, tags, comparison operands)
        short, rest = dict_words()
        some = draw(st.lists(st.sampled_from(short), min_size=14, max_size=22, unique=True)) + \
            draw(st.lists(st.sampled_from(rest), min_size=3, max_size=6, unique=True))
        some = draw(st.permutations(some))
        # three disjoint groups: a C++ class may not have a member named like itself (the mock
        # component's ports, the enum struct's enumerators)
        NS_POOL = TYPE_POOL = COMP_POOL = some[:len(some) // 2]  # pylint: disable=invalid-name
        PORT_POOL = some[len(some) // 2:len(some) * 3 // 4] + ['p']  # pylint: disable=invalid-name
        FIELD_POOL = some[len(some) * 3 // 4:] + ['f0']  # pylint: disable=invalid-name
        EVENT_POOL = draw(st.lists(st.sampled_from(short), min_size=8, max_size=12, unique=True))  # pylint: disable=invalid-name
        FORMAL_POOL = draw(st.lists(st.sampled_from(short), min_size=5, max_size=8, unique=True))  # pylint: disable=invalid-name
    else:
        NS_POOL, TYPE_POOL, COMP_POOL, FIELD_POOL, PORT_POOL, EVENT_POOL, FORMAL_POOL = \
            G_NS_POOL, G_TYPE_POOL, G_COMP_POOL, G_FIELD_POOL, G_PORT_POOL, G_EVENT_POOL, G_FORMAL_POOL
    if 'sub_events' in feats:
        # event names that contain one another (Release / ReleaseNow / Rel): a look-up by substring or
        # prefix picks the wrong one
        EVENT_POOL = ['Release', 'ReleaseNow', 'Rel', 'Claim', 'ClaimNow', 'Cl', 'NowRelease', 'Re']  # pylint: disable=invalid-name
    if 'big' in feats:
        # sizes: many ports, many events, many formals, long names
        long_id = 'with_a_very_long_name_that_goes_on_and_on_' + '0123456789_' * 7
        PORT_POOL = list(PORT_POOL) + ['port_' + long_id, 'r1', 'r2', 'r3', 's1', 's2']  # pylint: disable=invalid-name
        EVENT_POOL = list(EVENT_POOL) + ['Event_' + long_id, 'Ev2', 'Ev3']  # pylint: disable=invalid-name
        FORMAL_POOL = list(FORMAL_POOL) + ['formal_' + long_id]  # pylint: disable=invalid-name

    # ---- namespace skeleton: scope paths (prefix closed)
    depth = draw(st.integers(2, 4)) if 'deep_ns' in feats else draw(st.integers(0, 2))
    if 'global_enc' in feats:
        enc_scope = ()
    else:
        enc_scope = tuple(draw(st.lists(st.sampled_from(NS_POOL), min_size=max(1, depth),
                                        max_size=max(1, depth))))
        # a namespace must not be nested in an equally named one (keeps C++ lookups unambiguous)
        enc_scope = tuple(dict.fromkeys(enc_scope))
    repeat = 'repeat_ns' in feats and not ({'prefix_ns', 'shadow_ns', 'global_enc'} & feats)
    if repeat:
        # the encapsulee's scope holds the same identifier at two depths (X.Y.X): enclosing scopes
        # are told apart by position, not by name; the first interface lives in the level in between
        if len(enc_scope) < 2:
            enc_scope = ('Outer',) + (enc_scope or ('Inner',))
        enc_scope = enc_scope + (enc_scope[0],)
    prefix_sibling = None
    if 'prefix_ns' in feats and enc_scope:
        # a sibling namespace whose name is a string prefix of the encapsulee's namespace name
        # (Core / CoreUnit): only id-aligned prefixes enclose a scope
        prefix_sibling = enc_scope[:-1] + (enc_scope[-1],)
        enc_scope = enc_scope[:-1] + (enc_scope[-1] + 'Unit',)
    shadow_root = None
    if 'shadow_ns' in feats:
        # a root-level namespace named like the encapsulee's innermost namespace: P::A vs ::A - every
        # qualified name in the generated code has to be rooted (::A::I), a relative A::I would find P::A
        if len(enc_scope) < 2:
            enc_scope = ('Outer',) + (enc_scope or ('Inner',))
        shadow_root = (enc_scope[-1],)
    like_ns = None
    if 'name_like_ns' in feats and not ({'shadow_ns', 'prefix_ns'} & feats) and not repeat:
        # a declaration named like the top-level namespace it lives in (Hal.Hal)
        like_ns = (enc_scope[0],) if enc_scope else ('Hal',)
    scopes = [enc_scope[:k] for k in range(len(enc_scope) + 1)]
    if like_ns:
        scopes.append(like_ns)
    if shadow_root:
        scopes.append(shadow_root)
    if prefix_sibling:
        scopes.append(prefix_sibling)
    if 'same_name_siblings' in feats or draw(st.booleans()):
        # sibling branches
        for _ in range(draw(st.integers(1, 2))):
            base = draw(st.sampled_from(scopes))
            ext = draw(st.sampled_from(NS_POOL))
            if ext not in base:
                scopes.append(base + (ext,))
    mirror = None
    if 'mirror_ns' in feats:
        # two top-level namespaces with an identically named inner namespace: the same partially
        # qualified spelling (Inner.T) denotes different declarations from the two sides
        top_a = enc_scope[0] if enc_scope else 'Left'
        top_m = [n for n in ('Mirror', 'Right', 'Other') if n != top_a][0]
        inner = [n for n in ('Types', 'Sub', 'Hal') if n not in (top_a, top_m)][0]
        mirror = (top_a, top_m, inner)
        scopes += [(top_a,), (top_a, inner), (top_m,), (top_m, inner)]
    scopes = list(dict.fromkeys(scopes))

    names_in = {s: set() for s in scopes}  # names taken per scope (declarations and namespaces)
    for s in scopes:
        if s:
            names_in[s[:-1]].add(s[-1])
    decls = []  # (scope, element)

    def pool_for(pool):
        if 'dict_names' in feats:
            return TYPE_POOL
        return pool[:4] if ('same_name_siblings' in feats or collide) else pool

    # ---- externs
    externs = []
    for i in range(draw(st.integers(1, 3))):
        sc = draw(st.sampled_from(scopes))
        if shadow_root and i == 0:
            sc = shadow_root
        if repeat and i == 0:
            sc = enc_scope[:-1]
        nm = _uniq(draw, pool_for(['Info', 'Msg', 'T', 'Data', 'Value_t', 'Result']), names_in[sc])
        e = {'k': 'extern', 'name': [nm], 'value': f'::xt::T{i}'}
        if 'ref_extern' in feats and i in (0, 1):
            e['value'] = f'const ::xt::T{i}&'  # a reference-typed extern: only usable for in formals
        externs.append((sc, e))
        decls.append((sc, e))

    if mirror:
        top_a, top_m, inner = mirror
        for k, top in enumerate((top_a, top_m)):
            nm = 'T'
            names_in[(top, inner)].add(nm)
            e = {'k': 'extern', 'name': [nm], 'value': f'::xt::M{k}'}
            externs.append(((top, inner), e))
            decls.append(((top, inner), e))

    # ---- enums / subints outside interfaces
    enums = []
    if 'outer_enum' in feats or draw(st.booleans()):
        sc = draw(st.sampled_from(scopes))
        nm = _uniq(draw, pool_for(['Result', 'Status', 'E', 'Info']), names_in[sc])
        nf = draw(st.integers(1, 4))
        taken = set()
        e = {'k': 'enum', 'name': [nm], 'fields': [_uniq(draw, FIELD_POOL, taken) for _ in range(nf)]}
        enums.append((sc, e))
        decls.append((sc, e))
    subints = []
    if 'subint_reply' in feats:
        sc = draw(st.sampled_from(scopes))
        nm = _uniq(draw, pool_for(['Small', 'Idx', 'T', 'Sub_t']), names_in[sc])
        e = {'k': 'subint', 'name': [nm], 'lo': draw(st.integers(-3, 0)), 'hi': draw(st.integers(1, 9))}
        subints.append((sc, e))
        decls.append((sc, e))

    # ---- interfaces
    n_itf = draw(st.integers(2 if 'one_way_itf' in feats else 1, 3))
    interfaces = []
    for i in range(n_itf):
        sc = draw(st.sampled_from(scopes))
        if prefix_sibling and i == 0:
            sc = enc_scope  # the declaration that gets a namesake in the prefix-named sibling
        if shadow_root and i == 0:
            sc = shadow_root  # ::A::I referenced from P::A
        if repeat and i == 0:
            sc = enc_scope[:-1]  # X.Y.I referenced as plain I from X.Y.X
        if repeat and i == 1:
            sc = enc_scope  # its formals look up X.Y.<extern> from X.Y.X.<interface>
        nm = _uniq(draw, pool_for(TYPE_POOL), names_in[sc])
        if like_ns and i == 0 and like_ns[0] not in names_in[like_ns]:
            sc, nm = like_ns, like_ns[0]
            names_in[sc].add(nm)
        itf = {'k': 'interface', 'name': [nm], 'types': [], 'events': []}
        if ('nested_enum' in feats and i == 0) or 'mc_ready' in feats or \
                draw(st.integers(0, 3)) == 0:
            taken = set()
            tn = draw(st.sampled_from([x for x in pool_for(['Result', 'Status', 'E', 'Kind'])
                                       if x != nm]))  # a member type may not be named like its class
            itf['types'].append({'k': 'enum', 'name': [tn], 'fields': [
                _uniq(draw, FIELD_POOL, taken) for _ in range(draw(st.integers(1, 3)))]})
        interfaces.append((sc, itf))
        decls.append((sc, itf))

    if prefix_sibling:
        # namesakes (never referenced) of everything declared in the encapsulee's namespace
        for sc, e in list(decls):
            if tuple(sc) == tuple(enc_scope) and e['k'] in ('interface', 'extern') and \
                    e['name'][0] not in names_in[prefix_sibling]:
                names_in[prefix_sibling].add(e['name'][0])
                twin = {'k': 'interface', 'name': list(e['name']), 'types': [], 'events': [],
                        'distractor': True} if e['k'] == 'interface' else \
                    {'k': 'extern', 'name': list(e['name']), 'value': '::xt::Distractor',
                     'distractor': True}
                decls.append((prefix_sibling, twin))

    if mirror:
        for top in mirror[:2]:
            if 'IMir' not in names_in[(top,)]:
                names_in[(top,)].add('IMir')
                itf = {'k': 'interface', 'name': ['IMir'], 'types': [], 'events': [], 'mirror': True}
                interfaces.append(((top,), itf))
                decls.append(((top,), itf))
        n_itf = len(interfaces)

    # ---- distractor declarations (never referenced)
    if 'distractors' in feats:
        for _ in range(draw(st.integers(1, 3))):
            sc = draw(st.sampled_from(scopes))
            kind = draw(st.sampled_from(['component', 'foreign', 'enum', 'extern', 'interface']))
            nm = _uniq(draw, pool_for(TYPE_POOL + COMP_POOL), names_in[sc])
            if kind in ('component', 'foreign'):
                e = {'k': kind, 'name': [nm], 'ports': []}
            elif kind == 'enum':
                e = {'k': 'enum', 'name': [nm], 'fields': ['Zz']}
            elif kind == 'extern':
                e = {'k': 'extern', 'name': [nm], 'value': '::xt::Distractor'}
            else:
                e = {'k': 'interface', 'name': [nm], 'types': [], 'events': []}
            e['distractor'] = True
            decls.append((sc, e))

    # ---- unrelated declarations (never referenced) named like members / types of the generated code
    if 'api_names' in feats:
        for k in range(draw(st.integers(2, 4))):
            sc = draw(st.sampled_from(scopes))
            kind = draw(st.sampled_from(['component', 'foreign', 'enum', 'interface']))
            # the two public members every shell may have come first, the rest is drawn
            nm = API_NAMES[k] if k < 2 else draw(st.sampled_from(API_NAMES))
            if nm in names_in[sc]:
                continue
            names_in[sc].add(nm)
            if kind in ('component', 'foreign'):
                e = {'k': kind, 'name': [nm], 'ports': []}
            elif kind == 'enum':
                e = {'k': 'enum', 'name': [nm], 'fields': ['Zz']}
            else:
                e = {'k': 'interface', 'name': [nm], 'types': [], 'events': []}
            e['distractor'] = True
            decls.append((sc, e))

    # ---- encapsulee (placed now so that its name takes part in the look-ups)
    enc_name = _uniq(draw, COMP_POOL, names_in[enc_scope])
    if 'system_enc' in feats:
        enc = {'k': 'system', 'name': [enc_name], 'ports': [], 'instances': [], 'bindings': []}
    else:
        enc = {'k': 'component', 'name': [enc_name], 'ports': []}
    decls.append((enc_scope, enc))

    # ---- reference resolution helper over the final declaration set
    def flat_decls():
        out = []
        for sc, e in decls:
            fqn = tuple(sc) + tuple(e['name'])
            out.append({'kind': e['k'], 'fqn': fqn, 'elem': e})
            if e['k'] == 'interface':
                for t in e['types']:
                    out.append({'kind': t['k'], 'fqn': fqn + tuple(t['name']), 'elem': t,
                                'owner': fqn})
        return out

    def choose_ref(kinds, from_scope, prefer_partial):
        """(target decl, spelling) pairs that resolve uniquely from `from_scope`."""
        all_d = flat_decls()
        options = []
        for d in all_d:
            if d['kind'] not in kinds or d['elem'].get('distractor'):
                continue
            if d.get('owner') is not None and tuple(d['owner']) != tuple(from_scope):
                continue  # types nested in another interface are not referenced (C++ order)
            for sp in spellings(d['fqn'], from_scope):
                found = lookup(all_d, sp, from_scope)
                if len(found) == 1 and found[0] is d:
                    options.append((d, list(sp)))
        if not options:
            return None
        if prefer_partial:
            part = [o for o in options if 1 < len(o[1]) < len(o[0]['fqn'])]
            if part:
                return draw(st.sampled_from(part))
        return draw(st.sampled_from(options))

    # ---- events (formal types are looked up from the interface's own scope)
    for idx, (sc, itf) in enumerate(interfaces):
        if 'empty_itf' in feats and idx == n_itf - 1 and n_itf > 1:
            continue
        itf_fqn = tuple(sc) + tuple(itf['name'])
        ev_taken = set()
        n_in = draw(st.integers(2 if 'mc_ready' in feats else 1, 4))
        if 'sub_events' in feats:
            n_in = draw(st.integers(4, 6))
        if 'big' in feats:
            n_in = draw(st.integers(5, 8))
        n_out = draw(st.integers(4, 6)) if 'big' in feats else draw(st.integers(1 if ({'mc_ready', 'prefix_ports', 'out_inout', 'out_many_formals',
                                        'ref_extern'} & feats) else 0, 3))
        if 'one_way_itf' in feats and not itf.get('mirror'):
            # one-way interfaces: the first has out-events only (a provides port of it has nothing
            # inbound), the second in-events only (a requires port of it has nothing inbound)
            if idx == 0 and 'mc_ready' not in feats:
                n_in, n_out = 0, max(1, n_out)
            elif idx == 1:
                n_out = 0
        for j in range(n_in + n_out):
            is_in = j < n_in
            ev = {'name': _uniq(draw, EVENT_POOL, ev_taken), 'dir': 'in' if is_in else 'out',
                  'ret': ['void'], 'formals': []}
            if is_in:
                rk = draw(st.sampled_from(['void', 'void', 'bool', 'enum', 'enum', 'subint']))
                if 'bool_reply' in feats and j == 0:
                    rk = 'bool'
                if 'mc_ready' in feats and j < 2:
                    rk = 'enum' if j == 0 else 'void'
                if 'sub_events' in feats:
                    rk = 'enum' if j % 2 == 0 else 'void'  # every event is a possible claim / release
                if rk == 'bool':
                    ev['ret'] = ['bool']
                elif rk in ('enum', 'subint'):
                    ref = choose_ref((rk,), itf_fqn, 'partial_spelling' in feats)
                    if ref:
                        ev['ret'] = ref[1]
            many = (('out_many_formals' in feats or 'out_inout' in feats) and not is_in) or \
                ('inout_mix' in feats and is_in) \
                or itf.get('mirror')
            nf = draw(st.integers(2, 4)) if many else draw(st.integers(0, 3))
            if 'big' in feats and j % 3 == 0:
                nf = draw(st.integers(5, 7))
            f_taken = set()
            for k in range(nf):
                ref = choose_ref(('extern',), itf_fqn, 'partial_spelling' in feats)
                if itf.get('mirror') and k == 0:
                    # Inner.T, looked up from the interface's own side
                    want = tuple(sc) + (mirror[2], 'T')
                    for d in flat_decls():
                        if d['fqn'] == want and len(lookup(flat_decls(), (mirror[2], 'T'),
                                                           itf_fqn)) == 1:
                            ref = (d, [mirror[2], 'T'])
                if not ref:
                    break
                if is_in:
                    d = ['in', 'out', 'inout'][k % 3] if 'inout_mix' in feats else \
                        draw(st.sampled_from(['in', 'in', 'out', 'inout']))
                else:
                    # the parser refuses 'out' formals on out events, not 'inout' ones; only on
                    # request (forced feature, never drawn at random)
                    d = 'inout' if ('out_inout' in feats and k % 2 == 1) else 'in'
                if ref[0]['elem']['value'].endswith('&'):
                    d = 'in'
                ev['formals'].append({'name': _uniq(draw, FORMAL_POOL, f_taken), 'type': ref[1],
                                      'dir': d})
            itf['events'].append(ev)
        # event order: interleave in and out events
        if draw(st.booleans()):
            itf['events'].sort(key=lambda e: e['name'])

    # ---- ports of the encapsulee (types are looked up from the encapsulee's parent scope)
    if 'no_ports' not in feats:
        n_ports = draw(st.integers(4, max_ports)) if ('many_ports' in feats or 'many_requires' in feats or
                                                      'many_provides' in feats) else \
            draw(st.integers(1, min(4, max_ports)))
        if 'big' in feats:
            n_ports = draw(st.integers(9, 12))
        p_taken = set()
        shared = None
        for j in range(n_ports):
            ref = choose_ref(('interface',), enc_scope, 'partial_spelling' in feats)
            if not ref:
                break
            if repeat and j == 0:
                d0 = [d for d in flat_decls() if d['elem'] is interfaces[0][1]][0]
                for sp in (tuple(d0['fqn'][-1:]), tuple(d0['fqn'][-2:])):
                    found = lookup(flat_decls(), sp, enc_scope)
                    if len(found) == 1 and found[0]['elem'] is d0['elem']:
                        ref = (d0, list(sp))
                        break
            if 'one_way_itf' in feats and j in (0, 1, 2, 3) and not repeat:
                # ports 0/2 take the first (out-only) interface, ports 1/3 the second (in-only) one
                want = interfaces[j % 2][1]
                for sp_d in [d for d in flat_decls() if d['elem'] is want]:
                    for sp in spellings(sp_d['fqn'], enc_scope):
                        found = lookup(flat_decls(), sp, enc_scope)
                        if len(found) == 1 and found[0]['elem'] is want:
                            ref = (sp_d, list(sp))
                            break
            if mirror and j in (0, 1) and 'one_way_itf' not in feats and not repeat:
                # the first two ports take the two mirrored interfaces (same relative formal type
                # names, different declarations behind them)
                mirrored = [e for _sc, e in interfaces if e.get('mirror')]
                if len(mirrored) == 2:
                    want = mirrored[j]
                    for sp_d in [d for d in flat_decls() if d['elem'] is want]:
                        for sp in spellings(sp_d['fqn'], enc_scope):
                            found = lookup(flat_decls(), sp, enc_scope)
                            if len(found) == 1 and found[0]['elem'] is want:
                                ref = (sp_d, list(sp))
                                break
            if 'shared_itf' in feats and j == 1 and shared is not None:
                ref = shared
            if j == 0:
                shared = ref
            direction = 'provides' if j == 0 else ['requires', 'provides', 'requires'][j - 1] \
                if ('one_way_itf' in feats and j <= 3) else draw(st.sampled_from(
                ['provides', 'provides', 'provides', 'requires'] if 'many_provides' in feats else
                ['requires'] if 'many_requires' in feats else
                ['provides', 'requires', 'requires']))
            nm = _uniq(draw, PREFIX_PORT_POOL if 'prefix_ports' in feats else PORT_POOL, p_taken)
            # port names that differ only in the case of the first letter collide in the
            # generated accessor names (listed finding): excluded by construction
            p_taken.add(nm[0].upper() + nm[1:])
            p_taken.add(nm[0].lower() + nm[1:])
            inj = direction == 'requires' and (('injected' in feats and j == n_ports - 1) or
                                               draw(st.integers(0, 5)) == 0)
            enc['ports'].append({'name': nm, 'type': ref[1], 'dir': direction, 'injected': inj})
        if draw(st.booleans()):
            enc['ports'].reverse()  # e.g. requires ports first, provides last
        if enc['k'] == 'system':
            enc['instances'] = [{'name': 'inst0', 'type': [enc_name + 'Impl']}]
            enc['bindings'] = [{'left': {'port': p['name'], 'inst': None},
                                'right': {'port': p['name'], 'inst': 'inst0'}} for p in enc['ports']]

    # ---- assemble the tree
    layout = {'multi_id': 'multi_id_ns' in feats, 'reopen': 'reopened_ns' in feats,
              'shuffle': draw(st.integers(0, 10 ** 6))}
    root = assemble(decls, scopes, layout)
    for _, e in decls:
        e.pop('distractor', None)
        e.pop('mirror', None)
    return {'model': {'root': root, 'wd': '/work'}, 'enc': list(enc_scope) + [enc_name],
            'enc_kind': enc['k'], 'features': sorted(feats)}


def assemble(decls, scopes, layout):
    """Nest the flat (scope, element) list into namespace elements.  Declaration order inside a
    scope is the generation order rotated by layout['shuffle']; with layout['reopen'] a namespace
    holding >= 2 elements is written as two namespace blocks; with layout['multi_id'] a chain of
    namespaces that hold nothing but one child namespace is written as one multi-id namespace."""
    def build(scope):
        mine = [e for sc, e in decls if tuple(sc) == tuple(scope)]
        kids = [s for s in scopes if len(s) == len(scope) + 1 and tuple(s[:len(scope)]) == tuple(scope)]
        items = list(mine)
        for k in kids:
            sub = build(k)
            ids = [k[-1]]
            # collapse A { B { ... } } into A.B { ... }
            while layout['multi_id'] and len(sub) == 1 and sub[0]['k'] == 'ns':
                ids += sub[0]['ids']
                sub = sub[0]['elems']
            if layout['reopen'] and len(sub) >= 2:
                half = len(sub) // 2
                items.append({'k': 'ns', 'ids': list(ids), 'elems': sub[:half]})
                items.append({'k': 'ns', 'ids': list(ids), 'elems': sub[half:]})
            else:
                items.append({'k': 'ns', 'ids': list(ids), 'elems': sub})
        if items:
            r = layout['shuffle'] % len(items)
            items = items[r:] + items[:r]
        return items
    return build(())


# ---- facts about a shell model (pure functions of the model; used by oracles and generators)

def find_enc(sm):
    for d in declarations(sm['model']):
        if list(d['fqn']) == list(sm['enc']) and d['kind'] in ('component', 'system'):
            return d
    raise KeyError('encapsulee not in model')


def resolve(sm, name, scope, kinds=None):
    found = lookup(declarations(sm['model']), name, scope)
    if kinds:
        found = [d for d in found if d['kind'] in kinds]
    return found


def port_table(sm):
    """[{name, dir, injected, itf: decl}] for the encapsulee, in declaration order."""
    enc = find_enc(sm)
    out = []
    for p in enc['elem']['ports']:
        cands = lookup(declarations(sm['model']), p['type'], enc['scope'])
        itf = cands[0] if len(cands) == 1 and cands[0]['kind'] == 'interface' else None
        out.append({'name': p['name'], 'dir': p['dir'], 'injected': bool(p.get('injected')),
                    'itf': itf, 'type': p['type']})
    return out


def mc_candidates(sm):
    """Provides ports whose interface has an in-event replying an enum and a void in-event:
    [(port name, claim event, enum decl, release event)]."""
    out = []
    decls = declarations(sm['model'])
    for p in port_table(sm):
        if p['dir'] != 'provides' or p['itf'] is None:
            continue
        itf = p['itf']
        evs = itf['elem']['events']
        for ce in evs:
            if ce['dir'] != 'in':
                continue
            found = lookup(decls, ce['ret'], itf['fqn'])
            if len(found) != 1 or found[0]['kind'] != 'enum':
                continue
            for re_ in evs:
                if re_['dir'] == 'in' and re_ is not ce and re_['ret'] == ['void']:
                    out.append((p['name'], ce, found[0], re_))
    return out
