"""Structural mutations of a JSON document at drawn paths (C15, C16, C13 faults)."""
import copy

from hypothesis import strategies as st

from vf import gen_doc

KNOWN_CLASSES = ['root', 'namespace', 'component', 'system', 'foreign', 'interface', 'enum',
                 'subint', 'extern', 'port', 'ports', 'event', 'events', 'signature', 'formal',
                 'formals', 'types', 'fields', 'range', 'data', 'instance', 'instances', 'binding',
                 'bindings', 'end-point', 'import', 'file-name', 'scope_name', 'comment']
BAD_IDENTS = ['', '1a', 'a b', 'a.b', 'a-b', 'é', 'a\n', ' ', '::', 'a::b', '.']
OPS = ['delete', 'retype', 'retag', 'bad_ident', 'empty_list', 'replace', 'bad_string', 'dup',
       'retype_class']

mutation = st.fixed_dictionaries({
    'at': st.integers(0, 10 ** 6),
    'op': st.sampled_from(OPS),
    'arg': st.one_of(gen_doc.json_junk, st.sampled_from(KNOWN_CLASSES + ['bogus']),
                     st.sampled_from(BAD_IDENTS), st.integers(-2 ** 62, 2 ** 62)),
})
mutations = st.lists(mutation, min_size=1, max_size=4)


def paths(doc):
    """All (container, key) slots of the document, depth first."""
    out = []

    def rec(node):
        if isinstance(node, dict):
            for k in list(node.keys()):
                out.append((node, k))
                rec(node[k])
        elif isinstance(node, list):
            for i in range(len(node)):
                out.append((node, i))
                rec(node[i])
    rec(doc)
    return out


def depth_of_slot(doc, slot):
    """Nesting depth of the slot's container below the root."""
    target = slot[0]

    def rec(node, d):
        if node is target:
            return d
        kids = node.values() if isinstance(node, dict) else node if isinstance(node, list) else []
        for k in kids:
            r = rec(k, d + 1)
            if r is not None:
                return r
        return None
    return rec(doc, 0) or 0


def apply(doc, muts):
    """Return (mutated deep copy, list of (op actually applied, depth))."""
    doc = copy.deepcopy(doc)
    applied = []
    for m in muts:
        slots = paths(doc)
        if not slots:
            doc = copy.deepcopy(m['arg'])
            applied.append(('replace-root', 0))
            continue
        op = m['op']
        # prefer slots where the operation is meaningful
        if op == 'retag':
            cands = [(c, k) for c, k in slots if isinstance(c[k], dict) and '<class>' in c[k]]
        elif op == 'bad_ident':
            cands = [(c, k) for c, k in slots if isinstance(c[k], str) and isinstance(c, list)]
        elif op == 'empty_list':
            cands = [(c, k) for c, k in slots if isinstance(c[k], list) and c[k]]
        elif op == 'bad_string':
            cands = [(c, k) for c, k in slots if isinstance(c[k], str) and k != '<class>']
            # strings the parser interprets are preferred over free text
            # pick the *key* uniformly first, so that rare keys ('injected?', 'instance_name', ...)
            # are hit as often as frequent ones ('name', 'direction')
            keys = sorted({k for _c, k in cands if isinstance(k, str)})
            if keys and m['at'] % 4:
                chosen = keys[(m['at'] // 11) % len(keys)]
                cands = [(c, k) for c, k in cands if k == chosen]
        elif op == 'dup':
            cands = [(c, k) for c, k in slots if isinstance(c, list)]
        elif op == 'retype_class':
            cands = [(c, k) for c, k in slots if k == '<class>']
        else:
            cands = slots
        cands = cands or slots
        cont, key = cands[m['at'] % len(cands)]
        depth = depth_of_slot(doc, (cont, key))
        op, arg = m['op'], copy.deepcopy(m['arg'])
        val = cont[key]
        if op == 'delete':
            del cont[key]
        elif op == 'retag' and isinstance(val, dict) and '<class>' in val:
            val['<class>'] = arg if isinstance(arg, str) else 'bogus'
        elif op == 'bad_ident' and isinstance(val, str):
            cont[key] = arg if isinstance(arg, str) else '1a'
        elif op == 'empty_list' and isinstance(val, list):
            cont[key] = []
        elif op == 'bad_string' and isinstance(val, str):
            cont[key] = val + ['x', '%', '%s', ' ', '{0}', '\n', '%(a)s', 'X'][(m['at'] // 5) % 8]
        elif op == 'dup' and isinstance(cont, list):
            cont.insert(key, copy.deepcopy(val))
        elif op == 'retype_class':
            # the class tag itself becomes a value of another JSON type
            cont[key] = copy.deepcopy([None, True, 7, [], {}, ['enum'], {'<class>': 'enum'}, 3.5]
                                      [(m['at'] // 3) % 8])
            op = f'retype_class-{type(cont[key]).__name__}'
        elif op == 'retype':
            # another JSON type than the current one
            order = [None, True, 7, 'str', [], {}]
            cur = [type(o) for o in order].index(type(val)) if type(val) in [type(o) for o in order] \
                else 0
            shift = (m['at'] // 7) % 5 + 1
            new = order[(cur + shift) % len(order)]
            if (m['at'] // 35) % 3 == 1:  # the falsy member of the chosen type
                new = {bool: False, int: 0, str: ''}.get(type(new), new)
            cont[key] = copy.deepcopy(new)
            op = f'retype-{type(cont[key]).__name__}'
        else:
            cont[key] = arg
            op = 'replace'
        applied.append((op, depth))
    return doc, applied
