"""
Abstract Dezyne model (plain JSON-able dicts, no dznpy types) and the *reference semantics*
written from the property texts.  Nothing in this file imports dznpy.

model  = {"root": [elem, ...]}
elem   = {"k": "ns",        "ids": [id, ...], "elems": [elem, ...]}
       | {"k": "extern",    "name": [id, ...], "value": cpp}
       | {"k": "enum",      "name": [id, ...], "fields": [str, ...]}
       | {"k": "subint",    "name": [id, ...], "lo": int, "hi": int}
       | {"k": "interface", "name": [id, ...], "types": [enum | subint | unknown], "events": [event]}
       | {"k": "component", "name": [id, ...], "ports": [port]}
       | {"k": "foreign",   "name": [id, ...], "ports": [port]}
       | {"k": "system",    "name": [id, ...], "ports": [port], "instances": [{"name", "type"}],
                            "bindings": [{"left": endpoint, "right": endpoint}]}
       | {"k": "import",    "name": str}
       | {"k": "filename",  "name": str}
       | {"k": "unknown",   "cls": str, "junk": {..}}      an element class the parser does not know
       | {"k": "raw",       "value": <non-dict JSON>}      a non-dict sibling
event  = {"name": str, "dir": "in"|"out", "ret": [id, ...], "formals": [formal]}
formal = {"name": str, "type": [id, ...], "dir": "in"|"out"|"inout"}
port   = {"name": str, "type": [id, ...], "dir": "provides"|"requires", "injected": bool}
endpoint = {"port": str, "inst": str | None}
"""

DECL_KINDS = ('component', 'enum', 'extern', 'foreign', 'interface', 'subint', 'system')


def walk(elems, scope=()):
    """Pre-order traversal yielding (scope ids tuple, element) for every non-namespace element,
    descending into namespaces (the scope grows by all ids of the namespace name)."""
    for e in elems:
        if e['k'] == 'ns':
            yield from walk(e['elems'], scope + tuple(e['ids']))
        else:
            yield scope, e


def declarations(model):
    """All searchable declarations as dicts {kind, fqn(tuple), scope(tuple), elem, owner} in the
    order the property text prescribes (source pre-order; nested interface types right after
    their interface)."""
    out = []
    for scope, e in walk(model['root']):
        if e['k'] in DECL_KINDS:
            fqn = scope + tuple(e['name'])
            out.append({'kind': e['k'], 'fqn': fqn, 'scope': scope, 'elem': e, 'owner': None})
            if e['k'] == 'interface':
                for t in e['types']:
                    if t['k'] in ('enum', 'subint'):
                        out.append({'kind': t['k'], 'fqn': fqn + tuple(t['name']), 'scope': fqn,
                                    'elem': t, 'owner': fqn})
    return out


# --------------------------------------------------------------------------------------------
# C05 / C16: what a parse of the document must contain


def _ports(ports):
    return [{'name': p['name'], 'type': list(p['type']), 'dir': p['dir'],
             'injected': bool(p.get('injected'))} for p in ports]


def _events(events):
    return [{'name': ev['name'], 'dir': ev['dir'], 'ret': list(ev['ret']),
             'formals': [{'name': f['name'], 'type': list(f['type']), 'dir': f['dir']}
                         for f in ev['formals']]} for ev in events]


def _decl_entry(kind, scope, e):
    fqn = list(scope) + list(e['name'])
    d = {'fqn': fqn, 'parent': list(scope), 'name': list(e['name'])}
    if kind in ('component', 'foreign'):
        d['ports'] = _ports(e['ports'])
    elif kind == 'system':
        d['ports'] = _ports(e['ports'])
        d['instances'] = [{'name': i['name'], 'type': list(i['type'])} for i in e['instances']]
        d['bindings'] = [{'left': {'port': b['left']['port'], 'inst': b['left'].get('inst')},
                          'right': {'port': b['right']['port'], 'inst': b['right'].get('inst')}}
                         for b in e['bindings']]
    elif kind == 'enum':
        d['fields'] = list(e['fields'])
    elif kind == 'subint':
        d['range'] = [e['lo'], e['hi']]
    elif kind == 'extern':
        d['value'] = e['value']
    elif kind == 'interface':
        d['trail'] = fqn
        d['events'] = _events(e['events'])
        d['types'] = [{'kind': t['k'], **_decl_entry(t['k'], tuple(fqn), t)}
                      for t in e['types'] if t['k'] in ('enum', 'subint')]
    return d


def expected_file_contents(model):
    """One entry per declaration, FQN = enclosing namespace ids + own name, source order per
    container; interface-nested enums/subints hoisted right behind what precedes the interface;
    unknown elements skipped."""
    fc = {'components': [], 'enums': [], 'externs': [], 'filenames': [], 'foreigns': [],
          'imports': [], 'interfaces': [], 'subints': [], 'systems': []}
    for scope, e in walk(model['root']):
        k = e['k']
        if k in DECL_KINDS:
            fc[k + 's'].append(_decl_entry(k, scope, e))
            if k == 'interface':
                fqn = scope + tuple(e['name'])
                for t in e['types']:
                    if t['k'] in ('enum', 'subint'):
                        fc[t['k'] + 's'].append(_decl_entry(t['k'], fqn, t))
        elif k == 'import':
            fc['imports'].append({'name': e['name']})
        elif k == 'filename':
            fc['filenames'].append({'name': e['name']})
    return fc


# --------------------------------------------------------------------------------------------
# C07 / C14: scoping


def resolution_order(name, scope):
    """Candidates from innermost to outermost: scope[:k] + name for k = len(scope) .. 0."""
    name, scope = tuple(name), tuple(scope)
    return [scope[:k] + name for k in range(len(scope), -1, -1)]


def lookup(decls, name, scope):
    """All declarations whose FQN is on the resolution chain (each once, in `decls` order)."""
    chain = set(resolution_order(name, scope))
    return [d for d in decls if d['fqn'] in chain]


def spellings(fqn, scope):
    """Every way `fqn` can be written from `scope`: suffixes of fqn that, prefixed by some
    scope[:k], give fqn again."""
    fqn, scope = tuple(fqn), tuple(scope)
    out = []
    for k in range(len(scope), -1, -1):
        if fqn[:k] == scope[:k] and len(fqn) > k:
            out.append(fqn[k:])
    return out


# --------------------------------------------------------------------------------------------
# C03: port configuration semantics.  A selection is 'ALL' | 'REMAINING' | 'NONE' | [names...]

MUST_ACCEPT, MUST_REJECT, EITHER = 'accept', 'reject', 'either'


def _is_set(sel):
    return isinstance(sel, list)


def side_semantics(sts, mts, exposed, injected=()):
    """Reference for one side (provides or requires).
    Returns (verdict, {port: 'STS'|'MTS'}) for the *exposed* ports.
    exposed: list of port names the shell exposes on this side; injected: names of injected
    requires ports (never exposed, never need a semantics)."""
    exposed, injected = list(exposed), list(injected)
    named_s = set(sts) if _is_set(sts) else set()
    named_m = set(mts) if _is_set(mts) else set()
    open_corner = False

    # a selection naming a port the component does not have (on that side)
    for n in named_s | named_m:
        if n not in exposed and n not in injected:
            return MUST_REJECT, {}
        if n in injected:
            open_corner = True  # the text leaves naming an injected port open
    if named_s & named_m:
        return MUST_REJECT, {}
    # 'all' combined with anything but 'none'
    if (sts == 'ALL' and mts != 'NONE') or (mts == 'ALL' and sts != 'NONE'):
        return MUST_REJECT, {}
    result = {}
    for p in exposed:
        if p in named_s:
            result[p] = 'STS'
        elif p in named_m:
            result[p] = 'MTS'
        else:
            cover_s = sts in ('ALL', 'REMAINING')
            cover_m = mts in ('ALL', 'REMAINING')
            if cover_s and cover_m:
                return MUST_REJECT, {}  # two wildcards cover the same port
            if cover_s:
                result[p] = 'STS'
            elif cover_m:
                result[p] = 'MTS'
            else:
                return MUST_REJECT, {}  # an exposed port is left without semantics
    # corners the statement leaves open: both wildcards given although nothing remains for them,
    # (NONE, NONE) / equal selections on a side where nothing needs a semantics
    if sts in ('ALL', 'REMAINING') and mts in ('ALL', 'REMAINING'):
        open_corner = True
    if sts == 'NONE' and mts == 'NONE':
        open_corner = True
    if sts == mts:
        open_corner = True
    return (EITHER if open_corner else MUST_ACCEPT), result


def ports_semantics(prov_sel, req_sel, provides, requires, injected):
    """Reference for a whole port configuration.
    prov_sel/req_sel: (sts, mts); provides/requires: exposed port names; injected: injected
    requires port names.  Returns (verdict, {port: sem})."""
    v1, r1 = side_semantics(prov_sel[0], prov_sel[1], provides)
    v2, r2 = side_semantics(req_sel[0], req_sel[1], requires, injected)
    if MUST_REJECT in (v1, v2):
        return MUST_REJECT, {}
    # mixes semantics among provides ports
    if len(set(r1.values())) > 1:
        return MUST_REJECT, {}
    verdict = EITHER if EITHER in (v1, v2) else MUST_ACCEPT
    # syntactically mixed provides selection (both non-empty) that has no effect: open
    p_s, p_m = prov_sel
    if p_s != 'NONE' and p_m != 'NONE':
        verdict = EITHER
    res = dict(r1)
    res.update(r2)
    return verdict, res
