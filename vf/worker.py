"""Batch worker run in child interpreters (C08, C12): reads JSON lines {"model", "spec", "perm"}
from stdin, builds each with the code under test and prints one JSON line per case:
{"files": [[filename, sha256(contents), md5(utf-8 contents), reported hash], ...]} or {"err": type}.
"""
import hashlib
import json
import os
import sys


def permute(sel, perm):
    """Reorder an explicit name list (same set, different construction order)."""
    if not isinstance(sel, list) or len(sel) < 2:
        return sel
    if perm == 0:
        return list(sel)
    if perm == 1:
        return list(reversed(sel))
    k = perm % len(sel)
    rot = sel[k:] + sel[:k]
    return rot if perm % 2 == 0 else list(reversed(rot))


def permuted_spec(spec, perm):
    spec = json.loads(json.dumps(spec))
    for side in ('prov', 'req'):
        for sem in ('sts', 'mts'):
            spec[side][sem] = permute(spec[side][sem], perm)
    return spec


def digest(files):
    return [[fn, hashlib.sha256(c.encode('utf-8', 'surrogatepass')).hexdigest(),
             hashlib.md5(c.encode('utf-8')).hexdigest(), h] for fn, c, h in files]


def user_noise(files, spec):
    """What a user may do between two builds with values of their own: every identifier (and
    qualified name) that occurs in the generated files or in the configuration is turned into a
    NamespaceIds / Fqn through the public helpers and that *own* value is extended in place."""
    import re
    from dznpy.cpp_gen import fqn_t
    from dznpy.scoping import namespaceids_t, ns_ids_t
    toks = set()
    for _fn, contents, _h in files:
        toks.update(re.findall(r'[A-Za-z_]\w*(?:::[A-Za-z_]\w*)*', contents))
    toks.update(str(x) for x in (spec.get('prefix') or []))
    more = set()
    for t in toks:
        parts = t.split('::')
        more.update(parts)
        more.add('.'.join(parts))
    for t in sorted(toks | more):
        for make in (ns_ids_t, namespaceids_t):
            try:
                x = make(t)
            except Exception:  # pylint: disable=broad-except
                continue
            x += ns_ids_t('UserNoise')
            x.items.append('more')
        try:
            f = fqn_t(t)
            f.ns_ids.items.append('UserNoise')
        except Exception:  # pylint: disable=broad-except
            pass


class FsEnv:
    """A working directory in which the configured (relative) Dezyne file name exists - as a
    symbolic link to a differently named file.  The name is only a name to the generator."""

    def __init__(self, filename):
        import tempfile
        self.old = os.getcwd()
        self.root = tempfile.mkdtemp(prefix='vf_fsenv_')
        cwd = os.path.join(self.root, 'a', 'b', 'cwd')
        os.makedirs(cwd)
        os.chdir(cwd)
        if not os.path.isabs(filename) and filename:
            target = os.path.normpath(os.path.join(cwd, filename))
            if target.startswith(self.root + os.sep):
                os.makedirs(os.path.dirname(target), exist_ok=True)
                real = os.path.join(os.path.dirname(target), 'Decoy_r2.dzn')
                with open(real, 'w', encoding='utf-8') as fh:
                    fh.write('interface Decoy { in void e(); behaviour { on e: {} } }\n')
                os.symlink('Decoy_r2.dzn', target)

    def close(self):
        import shutil
        os.chdir(self.old)
        shutil.rmtree(self.root, ignore_errors=True)


def in_mode(mode, fn):
    """Run fn() the way the process variant asks for (C08: 'regardless of the process it runs in')."""
    if mode == 'thread':
        import threading
        box = []
        t = threading.Thread(target=lambda: box.append(fn()))
        t.start()
        t.join(25)
        return box[0] if box else ('err', TimeoutError('build in a secondary thread did not finish'))
    return fn()


def main():
    sys.path.insert(0, os.path.dirname(os.path.dirname(os.path.abspath(__file__))))
    import dznpy
    repo_src = os.path.join(os.path.abspath(os.environ.get('VERIF_REPO', '/repo')), 'src')
    if not os.path.abspath(dznpy.__file__).startswith(repo_src + os.sep):
        print(json.dumps({'harness_error': f'dznpy from {dznpy.__file__}'}), flush=True)
        return 2
    import resource
    import signal
    from vf import cfgspec
    _soft, hard = resource.getrlimit(resource.RLIMIT_AS)
    resource.setrlimit(resource.RLIMIT_AS, (2 * 1024 ** 3, hard))  # 16 workers may run at once

    class Timeout(BaseException):
        pass

    def on_alarm(_s, _f):
        raise Timeout()
    signal.signal(signal.SIGALRM, on_alarm)
    shared = None
    for line in sys.stdin:
        case = json.loads(line)
        spec = permuted_spec(case['spec'], case.get('perm', 0))
        signal.setitimer(signal.ITIMER_REAL, 20)
        try:
            builder = None
            if case.get('shared_builder'):
                if shared is None:
                    from dznpy.adv_shell import Builder
                    shared = Builder()
                builder = shared  # one Builder instance for the whole batch
            env = FsEnv(spec['filename']) if case.get('fs_env') else None
            try:
                kind, res = in_mode(case.get('mode'), lambda: cfgspec.outcome(
                    spec, model=case['model'], builder=builder))  # pylint: disable=cell-var-from-loop
            finally:
                if env:
                    env.close()
            if case.get('user_noise') and kind == 'ok':
                user_noise(res, spec)
                kind, res = cfgspec.outcome(spec, model=case['model'], builder=builder)
        except Timeout:
            kind, res = 'err', TimeoutError('build did not finish within 20 s')
        except MemoryError as exc:
            kind, res = 'err', exc
        finally:
            signal.setitimer(signal.ITIMER_REAL, 0)
        if kind == 'ok':
            print(json.dumps({'files': digest(res)}), flush=True)
        else:
            print(json.dumps({'err': type(res).__name__, 'msg': str(res)[:200]}), flush=True)
    return 0


if __name__ == '__main__':
    sys.exit(main())
