"""
Mini "dzn code generator": abstract model -> the C++ header `<basename>.hh` that `dzn code` would
have produced for the interfaces / enums / externs, with the encapsulee as an *instrumented mock
component* (see DESIGN.md section 1.2).  Types are resolved by the reference lookup of
vf/model.py - never by dznpy - so a wrong choice by dznpy shows up as a type mismatch in C++.
"""
from vf.model import declarations, lookup


def ns_open(scope):
    return ''.join(f'namespace {s} {{ ' for s in scope)


def ns_close(scope):
    return '}' * len(scope) + (' // ' + '::'.join(scope) if scope else '')


def cxx_fqn(fqn):
    return '::' + '::'.join(fqn)


class Types:
    """C++ spellings of event signatures, resolved through the reference semantics."""

    def __init__(self, model):
        self.decls = declarations(model)

    def formal_type(self, itf_fqn, formal):
        found = lookup(self.decls, formal['type'], itf_fqn)
        assert len(found) == 1 and found[0]['kind'] == 'extern', (formal, found)
        base = found[0]['elem']['value']
        return base + ('' if formal['dir'] == 'in' else '&')

    def local_type(self, itf_fqn, formal):
        """The plain value type of a formal (no const, no reference): for local variables."""
        t = self.formal_type(itf_fqn, formal).rstrip('&').strip()
        return t[len('const '):] if t.startswith('const ') else t

    def reply(self, itf_fqn, ev):
        """(C++ type, kind, count, lo) of the reply."""
        ret = list(ev['ret'])
        if ret == ['void']:
            return 'void', 'void', 0, 0
        if ret == ['bool']:
            return 'bool', 'bool', 2, 0
        found = lookup(self.decls, ret, itf_fqn)
        assert len(found) == 1, (ev, found)
        d = found[0]
        if d['kind'] == 'enum':
            return cxx_fqn(d['fqn']) + '::type', 'enum', len(d['elem']['fields']), 0
        if d['kind'] == 'subint':
            return 'int', 'subint', d['elem']['hi'] - d['elem']['lo'] + 1, d['elem']['lo']
        raise AssertionError(f'reply type of kind {d["kind"]}')

    def signature(self, itf_fqn, ev):
        rt = self.reply(itf_fqn, ev)[0]
        args = ', '.join(self.formal_type(itf_fqn, f) for f in ev['formals'])
        return f'std::function<{rt}({args})>'

    def params(self, itf_fqn, ev):
        return ', '.join(f'{self.formal_type(itf_fqn, f)} a{i}' for i, f in enumerate(ev['formals']))


def enum_struct(e):
    return f'struct {e["name"][-1]} {{ enum type {{ {", ".join(e["fields"])} }}; }};'


def handler_body(types, itf_fqn, ev, side, port_expr, direction, skip_key=None):
    """A lambda that records the invocation, writes out/inout arguments and returns a scripted
    reply.  `port_expr` is a C++ expression of type std::string naming the port."""
    rt, kind, count, lo = types.reply(itf_fqn, ev)
    vals = ', '.join(f'a{i}.v' for i in range(len(ev['formals'])))
    lines = [f'[=]({types.params(itf_fqn, ev)}) -> {rt} {{',
             '  long n = ++vf::S().seq;']
    if kind == 'void':
        lines.append('  long ri = -1;')
    else:
        lines.append(f'  long ri = vf::reply_index(n, {port_expr}, "{ev["name"]}", {count});')
    lines.append(f'  vf::handler("{side}", {port_expr}, "{direction}", "{ev["name"]}", n, {{{vals}}}, ri);')
    for i, f in enumerate(ev['formals']):
        if f['dir'] != 'in':
            lines.append(f'  a{i}.v = vf::outval(n, {i});')
    if kind == 'bool':
        lines.append('  return ri != 0;')
    elif kind == 'enum':
        lines.append(f'  return static_cast<{rt}>(ri);')
    elif kind == 'subint':
        lines.append(f'  return static_cast<int>({lo} + ri);')
    lines.append('}')
    return '\n'.join(lines)


def interface_struct(types, d):
    e, fqn = d['elem'], d['fqn']
    name = fqn[-1]
    out = [f'struct {name} {{']
    for t in e['types']:
        if t['k'] == 'enum':
            out.append('  ' + enum_struct(t))
    out.append('  dzn::port::meta meta;')
    for direction in ('in', 'out'):
        evs = [ev for ev in e['events'] if ev['dir'] == direction]
        out.append('  struct {')
        for ev in evs:
            out.append(f'    {types.signature(fqn, ev)} {ev["name"]};')
        out.append(f'  }} {direction};')
    out.append(f'  {name}(const dzn::port::meta& m) : meta(m) {{}}')
    out.append('  void check_bindings() const {')
    for ev in e['events']:
        out.append(f'    if (!{ev["dir"]}.{ev["name"]}) throw dzn::binding_error(meta, '
                   f'"{ev["dir"]}.{ev["name"]}");')
    out.append('  }')
    out.append('};')
    out.append(f'inline void connect({name}& provided, {name}& required) {{')
    out.append('  provided.out = required.out; required.in = provided.in;')
    out.append('  provided.meta.require = required.meta.require; '
               'required.meta.provide = provided.meta.provide;')
    out.append('}')
    return '\n'.join(out)


def component_struct(types, sm, ports):
    """The encapsulee as an instrumented mock component."""
    name = sm['enc'][-1]
    out = [f'struct {name} : public dzn::component {{',
           '  dzn::meta dzn_meta;', '  dzn::runtime& dzn_runtime;', '  const dzn::locator& dzn_locator;',
           # a port of the component that the shell does not expose (as an injected port would be):
           # only the component's own check_bindings() can notice that its event is unbound
           '  dzn::port::meta vf_inner_meta{{"vf_inner", nullptr, nullptr, nullptr}, {"", nullptr, nullptr, nullptr}};',
           '  std::function<void()> vf_inner_event;']
    live = [p for p in ports if not p['injected']]
    for p in live:
        out.append(f'  {cxx_fqn(p["itf"]["fqn"])} {p["name"]};')
    inits = [f'dzn_meta{{"", "{name}", nullptr, {{}}, {{}}, {{}}}}',
             'dzn_runtime(loc.get<dzn::runtime>())', 'dzn_locator(loc)']
    for p in live:
        if p['dir'] == 'provides':
            inits.append(f'{p["name"]}({{{{"{p["name"]}", &{p["name"]}, this, &dzn_meta}}, '
                         '{"", nullptr, nullptr, nullptr}})')
        else:
            inits.append(f'{p["name"]}({{{{"", nullptr, nullptr, nullptr}}, '
                         f'{{"{p["name"]}", &{p["name"]}, this, &dzn_meta}}}})')
    out.append(f'  {name}(const dzn::locator& loc)')
    out.append('    : ' + '\n    , '.join(inits))
    out.append('  {')
    out.append('    vf::S().component = this;')
    out.append('    if (vf::S().skip_binding != "vf_inner") vf_inner_event = [] {};')
    out.append('    vf::S().comp_locator = &loc;')
    out.append('    for (auto& kv : loc.services) vf::S().comp_services.push_back(kv.first.first + "|" + kv.first.second);')
    out.append('    vf::S().comp_pump = loc.try_get<dzn::pump>();')
    out.append('    vf::S().comp_runtime = loc.try_get<dzn::runtime>();')
    for p in live:
        own_dir = 'in' if p['dir'] == 'provides' else 'out'
        for ev in p['itf']['elem']['events']:
            if ev['dir'] != own_dir:
                continue
            key = f'{p["name"]}.{own_dir}.{ev["name"]}'
            body = handler_body(types, p['itf']['fqn'], ev, 'comp', f'std::string("{p["name"]}")',
                                own_dir)
            body = body.replace('\n', '\n    ')
            out.append(f'    if (vf::S().skip_binding != "{key}") {p["name"]}.{own_dir}.{ev["name"]} = {body};')
    out.append('  }')
    out.append('  void check_bindings() const {')
    out.append('    if (!vf_inner_event) throw dzn::binding_error(vf_inner_meta, "in.vf_inner_event");')
    for p in live:
        out.append(f'    {p["name"]}.check_bindings();')
    out.append('  }')
    out.append('};')
    return '\n'.join(out)


def generate(sm, ports):
    """ports: gen_shell.port_table(sm).  Returns the text of `<basename>.hh`."""
    model = sm['model']
    types = Types(model)
    decls = declarations(model)
    out = ['// mock of the Dezyne generated header for this model (harness-owned)',
           '#ifndef VF_MOCK_MODEL_HH', '#define VF_MOCK_MODEL_HH',
           '#include <dzn/locator.hh>', '#include <dzn/meta.hh>', '#include <dzn/pump.hh>',
           '#include <dzn/runtime.hh>', '#include <vf_rec.hh>', '#include <functional>',
           '#include <string>', '']
    # every extern value is its own, non-convertible C++ type
    xt = []
    for d in decls:
        if d['kind'] == 'extern':
            v = d['elem']['value'].rstrip('&').strip()
            v = v[len('const '):] if v.startswith('const ') else v
            if v.startswith('::xt::') and v[6:] not in xt:
                xt.append(v[6:])
    out.append('namespace xt {')
    for t in xt:
        out.append(f'struct {t} {{ long v = 0; }};')
    out.append('}  // namespace xt')
    for d in decls:
        if d['kind'] == 'enum' and d['owner'] is None:
            sc = d['fqn'][:-1]
            out.append(f'{ns_open(sc)}{enum_struct(d["elem"])} {ns_close(sc)}')
    for d in decls:
        if d['kind'] == 'interface':
            sc = d['fqn'][:-1]
            out.append(ns_open(sc))
            out.append(interface_struct(types, d))
            out.append(ns_close(sc))
    sc = sm['enc'][:-1]
    out.append(ns_open(sc))
    out.append(component_struct(types, sm, ports))
    out.append(ns_close(sc))
    out.append('#endif')
    return '\n'.join(out) + '\n'
