"""
C++ farm: writes the generated files + mock model header + driver into a scratch directory,
compiles (g++ / clang++, optionally with sanitizers), runs the driver with a command script and
parses the trace.  See DESIGN.md section 1.2.
"""
import json
import os
import re
import shutil
import subprocess
import tempfile

from vf import cfgspec, gen_shell
from vf.cxx import driver, model_header
from vf.runner import VERIF_DIR, lift_limits

MOCKRT = os.path.join(VERIF_DIR, 'mockrt')
CXXFLAGS = ['-std=c++17', '-O0', '-pthread', '-w']
SAN = {
    'none': [],
    'asan': ['-fsanitize=address,undefined', '-fno-omit-frame-pointer', '-g1'],
    'tsan': ['-fsanitize=thread', '-g1'],
}
SAN_ENV = {
    'asan': {'ASAN_OPTIONS': 'detect_stack_use_after_return=1:detect_leaks=0:abort_on_error=0:'
                             'halt_on_error=1:exitcode=66',
             'UBSAN_OPTIONS': 'halt_on_error=1:exitcode=66:print_stacktrace=1'},
    'tsan': {'TSAN_OPTIONS': 'halt_on_error=1:exitcode=66:second_deadlock_stack=1'},
}


class BuildError(Exception):
    """A translation unit did not compile / link."""

    def __init__(self, stage, output, owner):
        super().__init__(f'{stage}: {first_diag(output)}')
        self.stage, self.output, self.owner = stage, output, owner


def first_diag(output):
    for line in output.splitlines():
        if ' error: ' in line or 'undefined reference' in line or 'multiple definition' in line:
            return re.sub(r'^.*?/([^/]+:\d+)', r'\1', line)[:300]
    lines = [l for l in output.splitlines() if l.strip()]
    return lines[0][:300] if lines else 'failed'


def norm_diag(msg):
    """Stable signature of a compiler diagnostic: no paths, line numbers or quoted program text."""
    msg = re.sub(r'^[^ ]*:\d+(:\d+)?: ', '', msg)
    msg = re.sub(r'[‘\'][^’\']*[’\']', '*', msg)
    msg = re.sub(r'\d+', 'N', msg)
    return re.sub(r'\s+', '_', msg.strip())[:80]


HARNESS_FILES = {'main.cc', 'vf_rec.hh', 'meta.hh', 'locator.hh', 'runtime.hh', 'pump.hh', 'both.cc',
                 '_probe.cc', 'verif_sched.hh', 'verif_sched_pump.hh'}


def diag_owner(output, generated_names, model_header=None):
    """Who owns the first error: 'generated' (a file returned by the build) or 'harness:<file>'
    (mock runtime, mock model header, driver).  An error located in a system header is attributed
    to the first known file on its instantiation trail ("required from ...")."""
    harness = set(HARNESS_FILES) | ({model_header} if model_header else set())
    lines = output.splitlines()
    for i, line in enumerate(lines):
        if ' error: ' not in line:
            continue
        m = re.match(r'^([^: ]+):\d+', line)
        first = os.path.basename(m.group(1)) if m else ''
        if first in generated_names:
            return 'generated'
        if first in harness:
            return f'harness:{first}'
        # system header: walk the instantiation trail around the error
        trail = lines[max(0, i - 12):i + 25]
        for t in trail:
            if 'required from' in t or 'In instantiation' in t or 'In member function' in t \
                    or 'In function' in t or 'In lambda' in t or 'In constructor' in t:
                m2 = re.match(r'^([^: ]+):', t)
                fn = os.path.basename(m2.group(1)) if m2 else ''
                if fn in generated_names:
                    return 'generated'
                if fn in harness:
                    return f'harness:{fn}'
        return 'generated'  # nothing of ours on the trail: blame the code under test, visibly
    return 'link'


def run_cmd(cmd, cwd, timeout=600, env=None, stdin=None):
    e = dict(os.environ)
    if env:
        e.update(env)
    try:
        r = subprocess.run(cmd, cwd=cwd, capture_output=True, text=True, timeout=timeout, env=e,
                           input=stdin, preexec_fn=lift_limits, check=False, errors='replace')
        return r.returncode, r.stdout, r.stderr
    except subprocess.TimeoutExpired as exc:
        out = exc.stdout.decode(errors='replace') if isinstance(exc.stdout, bytes) else (exc.stdout or '')
        err = exc.stderr.decode(errors='replace') if isinstance(exc.stderr, bytes) else (exc.stderr or '')
        return 'timeout', out, err


class Project:
    """One (shell model, configuration) laid out in a scratch directory."""

    def __init__(self, sm, spec, semantics, workdir=None):
        self.sm, self.spec, self.sem = sm, spec, semantics
        self.ports = gen_shell.port_table(sm)
        self.info = driver.Info(sm, spec, semantics, self.ports)
        self.own_dir = workdir is None
        self.dir = workdir or tempfile.mkdtemp(prefix='vf_farm_')
        self.files = None  # [(filename, contents, hash)]
        self.twin_cc = None  # source file of the companion shell (see add_twin)
        self.twin_names = set()

    def add_twin(self):
        """A companion shell for the same encapsulee - other facilities origin, other file / struct
        name, same support files - whose object file is linked *ahead of* the shell under test: a
        program may hold several shells (the CREATE shell of a subsystem next to IMPORT shells that
        share its dispatcher), and none may change what another does.  Its own build outcome is of
        no concern here (C13); only its shell header and source are written."""
        spec = dict(self.spec, origin='IMPORT' if self.spec['origin'] == 'CREATE' else 'CREATE',
                    suffix=self.spec['suffix'] + 'Twin')
        spec.pop('_prior', None)
        kind, res = cfgspec.outcome(spec, model=self.sm['model'])
        if kind != 'ok':
            return
        own = {f[0] for f in self.files}
        for fn, contents, _ in res:
            if fn not in own:
                self.write(fn, contents)
                self.twin_names.add(fn)
                if fn.endswith('.cc'):
                    self.twin_cc = fn

    def cleanup(self):
        if self.own_dir:
            shutil.rmtree(self.dir, ignore_errors=True)

    def write(self, name, text):
        with open(os.path.join(self.dir, name), 'w', encoding='utf-8') as fh:
            fh.write(text)

    def generate(self):
        """Build with the code under test and lay out all files.  Raises on a build failure."""
        prior = self.spec.get('_prior')
        if prior:
            # a history: earlier builds by the same Builder (and on the same parsed contents where
            # the entry has no model of its own); their outcome is of no concern here
            from dznpy.adv_shell import Builder
            builder = Builder()
            fc = cfgspec.parse_model(self.sm['model'])
            for pb in prior:
                if pb.get('model') is not None:
                    cfgspec.outcome(pb['spec'], model=pb['model'], builder=builder)
                else:
                    cfgspec.outcome(pb['spec'], fc=fc, builder=builder)
            kind, res = cfgspec.outcome(self.spec, fc=fc, builder=builder)
        else:
            kind, res = cfgspec.outcome(self.spec, model=self.sm['model'])
        if kind == 'err':
            raise res
        self.files = res
        for fn, contents, _ in res:
            self.write(fn, contents)
        self.write(driver.base_name(self.spec) + '.hh', model_header.generate(self.sm, self.ports))
        self.write('main.cc', driver.generate(self.info))
        return res

    @property
    def generated_names(self):
        return {f[0] for f in self.files} | self.twin_names

    def compile(self, sources, out, san='none', compiler=None, extra=()):
        cc = compiler or ('clang++-14' if san == 'tsan' else 'g++')
        cmd = [cc] + CXXFLAGS + SAN[san] + list(extra) + ['-I', MOCKRT, '-I', self.dir] + \
            list(sources) + ['-o', out]
        rc, so, se = run_cmd(cmd, self.dir)
        if rc != 0:
            raise BuildError('compile ' + ' '.join(sources), so + se,
                             diag_owner(so + se, self.generated_names,
                                        driver.base_name(self.spec) + '.hh'))

    def syntax_only(self, text_or_file, compiler='g++', is_file=True, lang_header=False):
        if not is_file:
            self.write('_probe.cc', text_or_file)
            text_or_file = '_probe.cc'
        cmd = [compiler, '-std=c++17', '-fsyntax-only', '-w', '-I', MOCKRT, '-I', self.dir]
        if lang_header:
            cmd += ['-x', 'c++']
        cmd.append(text_or_file)
        rc, so, se = run_cmd(cmd, self.dir)
        return rc, so + se

    def build_driver(self, san='none'):
        exe = f'driver_{san}'
        shell_cc = driver.shell_name(self.spec) + '.cc'
        self.compile(([self.twin_cc] if self.twin_cc else []) + [shell_cc, 'main.cc'], exe, san=san)
        return exe

    def run_driver(self, exe, script, san='none', timeout=120):
        rc, so, se = run_cmd([os.path.join(self.dir, exe)], self.dir, timeout=timeout,
                             env=SAN_ENV.get(san), stdin='\n'.join(script) + '\nquit\n')
        trace = []
        for line in so.splitlines():
            line = line.strip()
            if line.startswith('{'):
                try:
                    trace.append(json.loads(line))
                except ValueError:
                    trace.append({'k': 'garbled', 'line': line[:200]})
        return rc, trace, se
