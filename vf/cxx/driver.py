"""
Generates `main.cc` for one (shell model, configuration): a translation unit of its own that
constructs the generated shell, binds recorders on every accessor-returned port and then
interprets a small command script from stdin, printing one JSON trace line per observation.
The oracle stays in Python (see DESIGN.md section 1.2).
"""
import os

from vf.cxx.model_header import Types, cxx_fqn, handler_body


def cap(n):
    return n[0].upper() + n[1:]


def base_name(spec):
    return os.path.splitext(os.path.basename(spec['filename']))[0]


def shell_name(spec):
    return base_name(spec) + spec['suffix']


def support_ns(spec):
    return '::' + '::'.join(list(spec.get('prefix') or []) + ['Dzn'])


class Info:
    """Facts the driver and the oracles share."""

    def __init__(self, sm, spec, semantics, ports):
        self.sm, self.spec, self.sem = sm, spec, semantics
        self.ports = [p for p in ports if not p['injected']]
        self.types = Types(sm['model'])
        self.mc = spec.get('mc')
        self.shell = cxx_fqn(list(sm['enc'][:-1]) + [shell_name(spec)])
        self.comp = cxx_fqn(sm['enc'])
        self.sns = support_ns(spec)
        self.create = spec['origin'] == 'CREATE'

    def is_mc(self, p):
        return bool(self.mc) and self.mc['port'] == p['name']

    def accessor(self, p):
        return f'{cap(p["dir"])}{cap(p["name"])}()'

    def events(self, p, direction):
        return [e for e in p['itf']['elem']['events'] if e['dir'] == direction]


def call_code(info, p, ev, target, side, direction, port_label):
    """C++ statements performing one call of `target` with fresh argument values and logging it."""
    t = info.types
    itf = p['itf']['fqn']
    rt, kind, _count, _lo = t.reply(itf, ev)
    n = len(ev['formals'])
    lines = ['long id = ++vf::S().calls;']
    for i, f in enumerate(ev['formals']):
        base = t.local_type(itf, f)
        lines.append(f'{base} a{i}; a{i}.v = id * 1000 + {i};')
    vals = ', '.join(f'a{i}.v' for i in range(n))
    args = ', '.join(f'a{i}' for i in range(n))
    lines.append(f'vf::begin_call(id, "{side}", {port_label}, "{direction}", "{ev["name"]}", {{{vals}}});')
    if kind == 'void':
        lines.append(f'{target}({args});')
        lines.append(f'vf::end_call(id, -1, {{{vals}}});')
    else:
        lines.append(f'auto r = {target}({args});')
        lines.append(f'vf::end_call(id, static_cast<long>(r), {{{vals}}});')
    return ' '.join(lines)


def generate(info):  # pylint: disable=too-many-locals,too-many-statements
    t = info.types
    o = []
    w = o.append
    w(f'#include "{shell_name(info.spec)}.hh"')
    w('#include <vf_rec.hh>')
    w('#include <chrono>\n#include <functional>\n#include <iostream>\n#include <memory>\n'
      '#include <sstream>\n#include <stdexcept>\n#include <string>\n#include <thread>\n#include <type_traits>\n#include <vector>')
    w(f'using Shell = {info.shell};')
    w(f'using Comp = {info.comp};')
    w('struct SvcA { int x = 1; }; struct SvcB { int y = 2; };')
    w('static dzn::locator user_loc; static std::unique_ptr<dzn::pump> user_pump; '
      'static std::unique_ptr<dzn::runtime> user_rt; static SvcA svc_a; static SvcB svc_b;')
    w('static std::unique_ptr<Shell> sh; static std::unique_ptr<Shell> sh2; static dzn::meta parent_meta;')
    w('static std::vector<std::thread> helpers; static std::atomic<int> helpers_done{0}; static long paused_posted = 0;')
    w('static Comp* comp() { return static_cast<Comp*>(vf::S().component); }')
    # detection idiom for Locator()
    w('template <typename T, typename = void> struct has_locator : std::false_type {};')
    w('template <typename T> struct has_locator<T, std::void_t<decltype(std::declval<T&>().Locator())>> '
      ': std::true_type {};')
    w('template <typename T> dzn::locator* locator_of(T& s) { if constexpr (has_locator<T>::value) '
      'return &s.Locator(); else return nullptr; }')
    if info.mc:
        w(f'static {info.sns}::ILog mclog{{')
        w('  [](const std::string& m) { vf::emit("{\\"k\\":\\"log\\",\\"lvl\\":\\"I\\",\\"msg\\":\\"" + vf::esc(m) + "\\"}"); },')
        w('  [](const std::string& m) { vf::emit("{\\"k\\":\\"log\\",\\"lvl\\":\\"W\\",\\"msg\\":\\"" + vf::esc(m) + "\\"}"); },')
        w('  [](const std::string& m) { vf::emit("{\\"k\\":\\"log\\",\\"lvl\\":\\"E\\",\\"msg\\":\\"" + vf::esc(m) + "\\"}"); }};')
    ctor_args = 'user_loc, ' + ('mclog, ' if info.mc else '')

    # ---- static type facts (C02/C03/C09): accessor types, Locator() presence
    for p in info.ports:
        fq = cxx_fqn(p['itf']['fqn'])
        wrap = 'Sts' if info.sem[p['name']] == 'STS' else 'Mts'
        if info.is_mc(p):
            w(f'static_assert(std::is_same_v<decltype(std::declval<Shell&>().ProvidesMultiClient'
              f'{cap(p["name"])}(std::declval<const std::string&>())), {info.sns}::Mts<{fq}>>, '
              f'"accessor type of multi-client port {p["name"]}");')
        else:
            w(f'static_assert(std::is_same_v<decltype(std::declval<Shell&>().{info.accessor(p)}), '
              f'{info.sns}::{wrap}<{fq}>>, "accessor type of port {p["name"]}");')
    w(f'static_assert(has_locator<Shell>::value == {"true" if info.create else "false"}, '
      '"Locator() accessor presence");')

    # ---- user side binding
    w('static void bind_user(const std::string& skip) {')
    for p in info.ports:
        if info.is_mc(p):
            continue
        own = 'out' if p['dir'] == 'provides' else 'in'
        for ev in info.events(p, own):
            key = f'{p["name"]}.{own}.{ev["name"]}'
            body = handler_body(t, p['itf']['fqn'], ev, 'user', f'std::string("{p["name"]}")', own)
            w(f'  if (skip != "{key}") sh->{info.accessor(p)}.port.{own}.{ev["name"]} = {body};')
    w('}')
    # client identifiers travel through the script in a blank-free notation: ~s blank, ~t tab, ~r CR
    w('static std::string unesc(const std::string& s) { std::string o; for (size_t i = 0; i < s.size(); ++i) { '
      'if (s[i] == \'~\' && i + 1 < s.size() && (s[i + 1] == \'s\' || s[i + 1] == \'t\' || s[i + 1] == \'r\')) '
      '{ o += s[i + 1] == \'s\' ? \' \' : (s[i + 1] == \'t\' ? \'\\t\' : \'\\r\'); ++i; } else o += s[i]; } return o; }')
    # fetch the enclosures of all clients first, bind their out-events afterwards
    w('static void register_clients_fetch_first(const std::vector<std::string>& ids) {')
    for p in info.ports:
        if not info.is_mc(p):
            continue
        w(f'  using Enc = decltype(sh->ProvidesMultiClient{cap(p["name"])}(std::string()));')
        w('  std::vector<Enc> encs;')
        w(f'  for (auto& id : ids) encs.push_back(sh->ProvidesMultiClient{cap(p["name"])}(unesc(id)));')
        w('  for (size_t i = 0; i < ids.size(); ++i) { const std::string id = ids[i]; Enc& prt = encs[i];')
        for ev in info.events(p, 'out'):
            body = handler_body(t, p['itf']['fqn'], ev, 'user',
                                f'(std::string("{p["name"]}@") + id)', 'out')
            w(f'    prt.port.out.{ev["name"]} = {body};')
        w('  }')
    w('  (void)ids;')
    w('}')
    w('static void register_client(const std::string& id, const std::string& skip) {')
    for p in info.ports:
        if not info.is_mc(p):
            continue
        w(f'  auto prt = sh->ProvidesMultiClient{cap(p["name"])}(unesc(id));')
        for ev in info.events(p, 'out'):
            key = f'{ev["name"]}'
            body = handler_body(t, p['itf']['fqn'], ev, 'user',
                                f'(std::string("{p["name"]}@") + id)', 'out')
            w(f'  if (skip != "{key}") prt.port.out.{ev["name"]} = {body};')
    w('  (void)id; (void)skip;')
    w('}')

    # ---- calls
    w('__attribute__((noinline)) static void do_call(const std::string& kind, const std::string& port, '
      'const std::string& ev, const std::string& client) {')
    w('  (void)client;')
    for p in info.ports:
        nm = p['name']
        if p['dir'] == 'provides':
            for ev in info.events(p, 'in'):
                if info.is_mc(p):
                    tgt = f'sh->ProvidesMultiClient{cap(nm)}(unesc(client)).port.in.{ev["name"]}'
                    code = call_code(info, p, ev, tgt, 'user', 'in', f'(std::string("{nm}@") + client)')
                    w(f'  if (kind == "mccall" && port == "{nm}" && ev == "{ev["name"]}") {{ {code} return; }}')
                else:
                    tgt = f'sh->{info.accessor(p)}.port.in.{ev["name"]}'
                    code = call_code(info, p, ev, tgt, 'user', 'in', f'std::string("{nm}")')
                    w(f'  if (kind == "call" && port == "{nm}" && ev == "{ev["name"]}") {{ {code} return; }}')
            for ev in info.events(p, 'out'):
                tgt = f'comp()->{nm}.out.{ev["name"]}'
                code = call_code(info, p, ev, tgt, 'comp', 'out', f'std::string("{nm}")')
                w(f'  if (kind == "comp" && port == "{nm}" && ev == "{ev["name"]}") {{ {code} return; }}')
        else:
            for ev in info.events(p, 'out'):
                tgt = f'sh->{info.accessor(p)}.port.out.{ev["name"]}'
                code = call_code(info, p, ev, tgt, 'user', 'out', f'std::string("{nm}")')
                w(f'  if (kind == "raise" && port == "{nm}" && ev == "{ev["name"]}") {{ {code} return; }}')
            for ev in info.events(p, 'in'):
                tgt = f'comp()->{nm}.in.{ev["name"]}'
                code = call_code(info, p, ev, tgt, 'comp', 'in', f'std::string("{nm}")')
                w(f'  if (kind == "comp" && port == "{nm}" && ev == "{ev["name"]}") {{ {code} return; }}')
    w('  vf::note("unknown-call", "\\"kind\\":\\"" + kind + "\\",\\"port\\":\\"" + port + "\\",\\"ev\\":\\"" + ev + "\\"");')
    w('}')

    # ---- address identities (C02)
    w('static void report_addresses() {')
    for p in info.ports:
        if info.is_mc(p):
            continue
        w(f'  vf::note("addr", std::string("\\"port\\":\\"{p["name"]}\\",\\"same\\":") + '
          f'((&sh->{info.accessor(p)}.port == &comp()->{p["name"]}) ? "true" : "false"));')
    w('}')

    # ---- every public member is usable from this translation unit (C06)
    w('static void touch_public_members() {')
    for p in info.ports:
        if info.is_mc(p):
            w(f'  {{ auto ids = sh->Get{cap(p["name"])}ClientIdentifiers(); std::string all; '
              f'for (auto& i : ids) all += i + " "; vf::note("ids", "\\"port\\":\\"{p["name"]}\\",'
              f'\\"ids\\":\\"" + all + "\\""); }}')
        else:
            w(f'  {{ auto x = sh->{info.accessor(p)}; (void)x; }}')
            w(f'  if (false) {info.sns}::ConnectPorts(sh->{info.accessor(p)}, sh->{info.accessor(p)});')
    if info.create:
        w('  { dzn::locator& l = sh->Locator(); (void)l; }')
    w('}')

    # ---- main: the command interpreter
    w('static std::string services_of(const dzn::locator& l) { std::string s; for (auto& kv : l.services) '
      '{ std::ostringstream o; o << kv.first.first << "|" << kv.first.second << "=" << (std::uintptr_t)kv.second << ";"; s += o.str(); } return s; }')
    w('int main() {')
    w('  std::string line;')
    w('  while (std::getline(std::cin, line)) {')
    w('    std::istringstream is(line); std::string cmd; is >> cmd;')
    w('    if (cmd.empty() || cmd[0] == \'#\') continue;')
    w('    if (!sh && cmd != "locator" && cmd != "skipcomp" && cmd != "construct" && cmd != "construct2" '
      '&& cmd != "force" && cmd != "mark" && cmd != "sleep" && cmd != "quit") { '
      'vf::note("no-shell", "\\"cmd\\":\\"" + cmd + "\\""); continue; }')
    w('    try {')
    w('    if (cmd == "locator") { int pu, rt, a, b; is >> pu >> rt >> a >> b; '
      'if (pu) { user_pump.reset(new dzn::pump()); user_loc.set(*user_pump); } '
      'if (rt) { user_rt.reset(new dzn::runtime()); user_loc.set(*user_rt); } '
      'if (a) user_loc.set(svc_a); if (b) user_loc.set(svc_b); '
      'vf::note("locator", "\\"services\\":\\"" + services_of(user_loc) + "\\""); }')
    w('    else if (cmd == "skipcomp") { is >> vf::S().skip_binding; }')
    w('    else if (cmd == "construct" || cmd == "construct2") { std::string nm; is >> nm; '
      'std::string before = services_of(user_loc); std::unique_ptr<Shell>& tgt = cmd == "construct" ? sh : sh2;')
    w(f'      try {{ tgt.reset(new Shell({ctor_args}nm)); }} catch (const std::exception& e) {{ '
      'vf::note("ctor-threw", "\\"msg\\":\\"" + vf::esc(e.what()) + "\\""); continue; }')
    w('      dzn::locator* own = locator_of(*tgt);')
    w('      dzn::pump* pu = own ? own->try_get<dzn::pump>() : user_loc.try_get<dzn::pump>();')
    w('      if (cmd == "construct") vf::S().pump = pu;')
    w('      std::ostringstream f; f << "\\"own_locator\\":" << (own ? "true" : "false")'
      ' << ",\\"comp_got_own_locator\\":" << ((own && vf::S().comp_locator == own) ? "true" : "false")'
      ' << ",\\"comp_got_user_locator\\":" << ((vf::S().comp_locator == &user_loc) ? "true" : "false")'
      ' << ",\\"comp_services\\":\\"" << (vf::S().comp_locator ? services_of(*vf::S().comp_locator) : std::string("-")); '
      'f << "\\",\\"user_services_before\\":\\"" << before << "\\",\\"user_services_after\\":\\"" '
      '<< services_of(user_loc) << "\\",\\"own_services\\":\\"" << (own ? services_of(*own) : std::string("-"))'
      ' << "\\",\\"pump\\":" << (std::uintptr_t)pu << ",\\"comp_pump\\":" << (std::uintptr_t)vf::S().comp_pump'
      ' << ",\\"user_pump\\":" << (std::uintptr_t)user_pump.get()'
      ' << ",\\"runtime_shared_with_user\\":" << ((vf::S().comp_runtime == user_rt.get() && user_rt) ? "true" : "false")'
      ' << ",\\"comp_runtime\\":" << (std::uintptr_t)vf::S().comp_runtime'
      ' << ",\\"meta_name\\":\\"" << vf::esc(static_cast<Comp*>(vf::S().component)->dzn_meta.name) << "\\"";')
    w('      vf::S().comp_services.clear();')
    w('      vf::note(cmd == "construct" ? "constructed" : "constructed2", f.str()); }')
    w('    else if (cmd == "bind") { std::string skip; is >> skip; bind_user(skip); }')
    w('    else if (cmd == "client") { std::string id, skip; is >> id >> skip; '
      'try { register_client(id, skip); vf::note("client-ok", "\\"id\\":\\"" + id + "\\""); } '
      'catch (const std::exception& e) { vf::note("client-threw", "\\"id\\":\\"" + id + "\\",\\"msg\\":\\"" + vf::esc(e.what()) + "\\""); } }')
    w('    else if (cmd == "clientsff") { std::vector<std::string> ids; std::string id; while (is >> id) ids.push_back(id); '
      'try { register_clients_fetch_first(ids); for (auto& i : ids) vf::note("client-ok", "\\"id\\":\\"" + vf::esc(i) + "\\""); } '
      'catch (const std::exception& e) { vf::note("client-threw", "\\"id\\":\\"*\\",\\"msg\\":\\"" + vf::esc(e.what()) + "\\""); } }')
    w('    else if (cmd == "final") { int wp = 0; is >> wp; try { if (wp) sh->FinalConstruct(&parent_meta); '
      'else sh->FinalConstruct(); vf::note("final-ok", std::string("\\"parent_set\\":") + '
      '((comp()->dzn_meta.parent == (wp ? &parent_meta : nullptr)) ? "true" : "false")); } '
      'catch (const dzn::binding_error& e) { vf::note("final-threw", "\\"type\\":\\"binding_error\\",\\"msg\\":\\"" + vf::esc(e.what()) + "\\""); } '
      'catch (const std::exception& e) { vf::note("final-threw", "\\"type\\":\\"other\\",\\"msg\\":\\"" + vf::esc(e.what()) + "\\""); } }')
    w('    else if (cmd == "call" || cmd == "raise" || cmd == "comp") { std::string p, e; is >> p >> e; do_call(cmd, p, e, ""); }')
    w('    else if (cmd == "mccall") { std::string c, p, e; is >> c >> p >> e; do_call(cmd, p, e, c); }')
    w('    else if (cmd == "pcomp") { std::string p, e; is >> p >> e; dzn::pump* pu = vf::S().pump; '
      '(*pu)([p, e] { do_call("comp", p, e, ""); }); pu->wait_idle(); }')
    w('    else if (cmd == "acall" || cmd == "araise" || cmd == "amccall") { std::string c, p, e; '
      'if (cmd == "amccall") is >> c; is >> p >> e; std::string k = cmd.substr(1); '
      'helpers.emplace_back([k, p, e, c] { try { do_call(k, p, e, c); } catch (const std::exception& x) '
      '{ vf::note("async-threw", "\\"msg\\":\\"" + vf::esc(x.what()) + "\\""); } ++helpers_done; }); }')
    w('    else if (cmd == "join") { for (auto& h : helpers) h.join(); helpers.clear(); vf::note("joined"); }')
    w('    else if (cmd == "probe") { vf::note("probe", "\\"helpers_done\\":" + std::to_string(helpers_done.load()) + "," + vf::ctx()); }')
    w('    else if (cmd == "pause") { vf::S().pump->pause(); paused_posted = vf::S().pump->posted; vf::note("paused", vf::ctx()); }')
    w('    else if (cmd == "resume") { vf::note("resuming", vf::ctx()); vf::S().pump->resume(); }')
    w('    else if (cmd == "idle") { vf::S().pump->wait_idle(); vf::note("idle", vf::ctx()); }')
    w('    else if (cmd == "waitposted") { long n; int ms; is >> n >> ms; bool ok = vf::S().pump->wait_posted(paused_posted + n, ms); '
      'vf::note("waitposted", std::string("\\"ok\\":") + (ok ? "true" : "false") + "," + vf::ctx()); }')
    w('    else if (cmd == "sleep") { int ms; is >> ms; std::this_thread::sleep_for(std::chrono::milliseconds(ms)); }')
    w('    else if (cmd == "force") { std::string key; is >> key; long v; std::lock_guard<std::mutex> l(vf::S().forced_m); '
      'while (is >> v) vf::S().forced[key].push_back(v); }')
    w('    else if (cmd == "react") { std::string key, p, e; is >> key >> p >> e; '
      'std::lock_guard<std::mutex> l(vf::S().react_m); '
      'vf::S().reactions[key] = [p, e] { do_call("comp", p, e, ""); }; }')
    w('    else if (cmd == "unreact") { std::lock_guard<std::mutex> l(vf::S().react_m); '
      'vf::S().reactions.clear(); }')
    w('    else if (cmd == "addr") { report_addresses(); }')
    w('    else if (cmd == "touch") { touch_public_members(); vf::note("touched"); }')
    w('    else if (cmd == "mark") { std::string m; is >> m; vf::note("mark", "\\"m\\":\\"" + m + "\\"," + vf::ctx()); }')
    w('    else if (cmd == "quit") break;')
    w('    else vf::note("unknown-command", "\\"cmd\\":\\"" + cmd + "\\"");')
    w('    } catch (const std::exception& e) { vf::note("command-threw", "\\"cmd\\":\\"" + cmd + '
      '"\\",\\"msg\\":\\"" + vf::esc(e.what()) + "\\""); }')
    w('  }')
    w('  for (auto& h : helpers) h.join();')
    w('  sh2.reset(); sh.reset();')
    w('  vf::note("end");')
    w('  return 0;')
    w('}')
    return '\n'.join(o) + '\n'
