"""
Generates the C11 driver for one multi-client (model, configuration): client threads performing
claim/use/release cycles and an environment thread that makes the (honest-arbiter) mock
component raise out-events, either under the harness-owned scheduler (-DVERIF_SCHED, engine E2)
or free-running with generated perturbations (ThreadSanitizer build, engine E1).

argv[1] = schedule:  "s:12=1,30=2" sparse preemptions | "d:1,0,2,..." dense | "p:0,1,17,..."
                     perturbations for the free-running build
argv[2] = programs:  "<cycles>.<uses>;<cycles>.<uses>;...;<raises>"  (one entry per client, then
                     the environment)
"""
from vf.cxx.driver import cap, shell_name
from vf.cxx.model_header import handler_body
from vf.props.c04 import McFacts


def call_stmt(info, p, ev, target):
    t = info.types
    itf = p['itf']['fqn']
    _rt, kind, _c, _lo = t.reply(itf, ev)
    decl = ' '.join(f'{t.local_type(itf, f)} a{i}; a{i}.v = {i};'
                    for i, f in enumerate(ev['formals']))
    args = ', '.join(f'a{i}' for i in range(len(ev['formals'])))
    if kind == 'void':
        return f'{decl} {target}({args}); long r = -1; (void)r;'
    return f'{decl} long r = static_cast<long>({target}({args}));'


def generate(info):
    facts = McFacts(info)
    p = facts.port
    nm = p['name']
    t = info.types
    o = []
    w = o.append
    w(f'#include "{shell_name(info.spec)}.hh"')
    w('#include <vf_rec.hh>')
    w('#include <atomic>\n#include <chrono>\n#include <iostream>\n#include <sstream>\n#include <thread>\n#include <vector>')
    w(f'using Shell = {info.shell}; using Comp = {info.comp};')
    w('static Comp* comp() { return static_cast<Comp*>(vf::S().component); }')
    w('#ifdef VERIF_SCHED')
    w('static int add_actor(const std::string& n) { return vs::S().add(n); }')
    w('static void a_start(int id) { vs::self = id; vs::S().start(id); }')
    w('static void a_point(int id) { vs::S().yield(id); }')
    w('static void a_done(int id) { vs::S().done(id); }')
    w('static void hook() { if (vs::self >= 0) vs::S().yield(vs::self); }')
    w('#else')
    w('static std::vector<int> perturb; static std::atomic<size_t> ppos{0}; static std::atomic<bool> go{false};')
    w('static void jitter() { if (perturb.empty()) return; int v = perturb[ppos++ % perturb.size()]; '
      'if (v == 1) std::this_thread::yield(); else if (v > 1) '
      'std::this_thread::sleep_for(std::chrono::microseconds(v * 5)); }')
    w('static int add_actor(const std::string&) { static int n = 0; return n++; }')
    w('static void a_start(int) { while (!go.load()) std::this_thread::yield(); }')
    w('static void a_point(int) { jitter(); }')
    w('static void a_done(int) {}')
    w('static void hook() { jitter(); }')
    w('#endif')
    # lock-granularity scheduling points: interpose the pthread mutex functions (scheduler build only)
    w('#ifdef VERIF_SCHED')
    w('#include <dlfcn.h>\n#include <pthread.h>')
    w('extern "C" {')
    w('static int (*vs_real_lock)(pthread_mutex_t*) = nullptr; static int (*vs_real_unlock)(pthread_mutex_t*) = nullptr;')
    w('__attribute__((constructor)) static void vs_resolve() { '
      'vs_real_lock = (int (*)(pthread_mutex_t*))dlsym(RTLD_NEXT, "pthread_mutex_lock"); '
      'vs_real_unlock = (int (*)(pthread_mutex_t*))dlsym(RTLD_NEXT, "pthread_mutex_unlock"); }')
    w('int pthread_mutex_lock(pthread_mutex_t* m) { if (!vs_real_lock) vs_resolve(); '
      'if (vs::self >= 0 && vs::hooking == 0 && vs::S().wants(m)) { ++vs::hooking; vs::S().before_lock(vs::self, m); --vs::hooking; } '
      'return vs_real_lock(m); }')
    w('int pthread_mutex_unlock(pthread_mutex_t* m) { if (!vs_real_unlock) vs_resolve(); int rc = vs_real_unlock(m); '
      'if (vs::self >= 0 && vs::hooking == 0 && vs::S().lock_points && m != (pthread_mutex_t*)vs::S().m.native_handle() && !vs::S().ignored.count(m)) '
      '{ ++vs::hooking; vs::S().after_unlock(m); --vs::hooking; } return rc; }')
    w('}')
    w('#endif')
    w('static void T(const std::string& what, const std::string& who, long v = 0) { '
      'vf::emit("{\\"k\\":\\"t\\",\\"what\\":\\"" + what + "\\",\\"who\\":\\"" + who + "\\",\\"v\\":" + std::to_string(v) + "}"); }')
    w('static int run_one(int argc, char** argv) {')
    w('  std::string sched = argc > 1 ? argv[1] : "s:"; std::string progs = argc > 2 ? argv[2] : "1.0;1.0;1";')
    w('#ifdef VERIF_SCHED')
    w('  vs::S().ignore_mutex(vf::S().out_m.native_handle()); vs::S().ignore_mutex(vf::S().forced_m.native_handle()); '
      'vs::S().ignore_mutex(vf::S().react_m.native_handle());')
    w('  vs::S().parse(sched);')
    w('#else')
    w('  { std::stringstream ss(sched.size() > 2 ? sched.substr(2) : ""); std::string it; '
      'while (std::getline(ss, it, \',\')) if (!it.empty()) perturb.push_back(std::stoi(it)); }')
    w('#endif')
    w('  std::vector<std::pair<int,int>> cp; int raises = 0;')
    w('  { std::stringstream ss(progs); std::string it; std::vector<std::string> parts; '
      'while (std::getline(ss, it, \';\')) parts.push_back(it); '
      'for (size_t i = 0; i + 1 < parts.size(); ++i) { auto d = parts[i].find(\'.\'); '
      'cp.push_back({std::stoi(parts[i].substr(0, d)), std::stoi(parts[i].substr(d + 1))}); } '
      'raises = std::stoi(parts.back()); }')
    w(f'  vf::S().arb_on = true; vf::S().arb_claim = "{nm}.{facts.claim["name"]}"; '
      f'vf::S().arb_release = "{nm}.{facts.release["name"]}"; vf::S().arb_grant = {facts.grant}; '
      f'vf::S().arb_deny = {facts.deny[0] if facts.deny else facts.grant};')
    w('  dzn::locator loc; std::unique_ptr<dzn::pump> upump; std::unique_ptr<dzn::runtime> urt;')
    if not info.create:
        w('  upump.reset(new dzn::pump()); urt.reset(new dzn::runtime()); loc.set(*upump).set(*urt);')
    w(f'  {info.sns}::ILog log{{')
    # every informational log call is a scheduling point (the user's logger runs on the client
    # thread, outside the selector's critical sections on the unchanged code); the Select/Deselect
    # lines also mark the gap between the forwarded call and the (de)selection for the oracle
    w('    [](const std::string& m) { if (m.find("/Select/") != std::string::npos || '
      'm.find("/Deselect/") != std::string::npos) T("gap", m); else T("info", vf::esc(m)); hook(); },')
    w('    [](const std::string& m) { T("warn", vf::esc(m)); },')
    w('    [](const std::string& m) { T("error", vf::esc(m)); }};')
    w('  Shell sh(loc, log, "inst");')
    if info.create:
        w('  dzn::pump* pu = &sh.Locator().get<dzn::pump>();')
    else:
        w('  dzn::pump* pu = upump.get();')
    w('  vf::S().pump = pu;')
    # bind user side of all other ports
    for q in info.ports:
        if info.is_mc(q):
            continue
        own = 'out' if q['dir'] == 'provides' else 'in'
        acc = f'{cap(q["dir"])}{cap(q["name"])}()'
        for ev in info.events(q, own):
            body = handler_body(t, q['itf']['fqn'], ev, 'user', f'std::string("{q["name"]}")', own)
            w(f'  sh.{acc}.port.{own}.{ev["name"]} = {body};')
    w('  std::vector<std::string> ids; for (size_t i = 0; i < cp.size(); ++i) ids.push_back("K" + std::to_string(i));')
    w('  for (auto& id : ids) {')
    w(f'    auto prt = sh.ProvidesMultiClient{cap(nm)}(id);')
    for ev in facts.outs:
        params = t.params(p['itf']['fqn'], ev)
        w(f'    prt.port.out.{ev["name"]} = [id]({params}) {{ T("deliver", id); }};')
    w('  }')
    w('  sh.FinalConstruct();')
    w('  std::vector<std::thread> th;')
    w('  for (size_t c = 0; c < cp.size(); ++c) {')
    w('    int aid = add_actor(ids[c]); int cycles = cp[c].first, uses = cp[c].second; std::string id = ids[c];')
    w('    th.emplace_back([&sh, aid, cycles, uses, id] {')
    w('      a_start(aid);')
    w(f'      auto prt = sh.ProvidesMultiClient{cap(nm)}(id);')
    w('      for (int k = 0; k < cycles; ++k) {')
    w('        a_point(aid);')
    w('        T("claim-call", id);')
    w(f'        {{ {call_stmt(info, p, facts.claim, "prt.port.in." + facts.claim["name"])} '
      f'T("claim-ret", id, r == {facts.grant} ? 1 : 0); if (r != {facts.grant}) continue; }}')
    w('        a_point(aid);')
    if facts.others:
        ev = facts.others[0]
        w('        for (int u = 0; u < uses; ++u) { T("use-call", id); '
          f'{{ {call_stmt(info, p, ev, "prt.port.in." + ev["name"])} }} T("use-ret", id); a_point(aid); }}')
    w('        T("release-call", id);')
    w(f'        {{ {call_stmt(info, p, facts.release, "prt.port.in." + facts.release["name"])} }}')
    w('        T("release-ret", id);')
    w('      }')
    w('      a_done(aid);')
    w('    });')
    w('  }')
    w('  { int aid = add_actor("env");')
    w('    th.emplace_back([pu, aid, raises] {')
    w('      a_start(aid);')
    w('      for (int k = 0; k < raises; ++k) {')
    w('        a_point(aid);')
    if facts.outs:
        ev = facts.outs[0]
        decl = ' '.join(f'{t.local_type(p["itf"]["fqn"], f)} a{i}; a{i}.v = {i};'
                        for i, f in enumerate(ev['formals']))
        args = ', '.join(f'a{i}' for i in range(len(ev['formals'])))
        w(f'        (*pu)([] {{ T("raise-begin", "env", vf::S().arb_held ? 1 : 0); {decl} '
          f'comp()->{nm}.out.{ev["name"]}({args}); T("raise-end", "env"); }});')
    w('      }')
    w('      a_done(aid);')
    w('    });')
    w('  }')
    w('#ifdef VERIF_SCHED')
    w('  vs::S().run();')
    w('  auto emit_decisions = [] { std::string d; for (auto& x : vs::S().decisions) d += x + " "; '
      'vf::emit("{\\"k\\":\\"decisions\\",\\"d\\":\\"" + d + "\\"}"); };')
    w('  bool dl = vs::S().deadlock;')
    w('  if (dl) { std::string st; for (auto& a : vs::S().actors) st += a.name + "=" + std::to_string((int)a.st) + " "; '
      'T("deadlock", st); emit_decisions(); std::cout << std::flush; std::_Exit(3); }')
    w('  if (vs::S().outcome == 2) { T("free-deadlock", "main"); std::cout << std::flush; std::_Exit(5); }')
    w('  if (vs::S().outcome == 1) { T("free-completed", "main"); for (auto& x : th) x.join(); '
      'std::cout << std::flush; std::_Exit(4); }')
    w('#else')
    w('  go = true;')
    w('#endif')
    w('  for (auto& x : th) x.join();')
    w('#ifdef VERIF_SCHED')
    w('  { std::string d; for (auto& x : vs::S().decisions) d += x + " "; '
      'vf::emit("{\\"k\\":\\"decisions\\",\\"d\\":\\"" + d + "\\"}"); }')
    w('#else')
    w('  pu->wait_idle();')
    w('#endif')
    w('  T("end", "main");')
    w('  return 0;')
    w('}')
    # batch mode (scheduler build): one process serves many schedules, each in a forked child, so
    # that a sweep does not pay for a Python-side process start per schedule.  stdin: lines
    # "<schedule> <programs>"; after each child a line {"k":"done","rc":<exit status or -signal>}.
    # The batch stops at the first child that hangs or deadlocks (rc 99 for the rest) and after three
    # children that stalled and completed only when running freely (rc 98 for the rest: no verdict).
    w('#include <sys/wait.h>\n#include <unistd.h>')
    w('int main(int argc, char** argv) {')
    w('#ifdef VERIF_SCHED')
    w('  if (argc > 1 && std::string(argv[1]) == "--batch") {')
    w('    std::string line; bool stop = false; int stalled = 0;')
    w('    while (std::getline(std::cin, line)) {')
    w('      if (line.empty()) continue;')
    w('      if (stop) { std::cout << "{\\"k\\":\\"done\\",\\"rc\\":99}" << std::endl; continue; }')
    w('      if (stalled >= 3) { std::cout << "{\\"k\\":\\"done\\",\\"rc\\":98}" << std::endl; continue; }')
    w('      auto sp = line.find(\' \'); std::string a = line.substr(0, sp), b = line.substr(sp + 1);')
    w('      std::cout << std::flush; std::cerr << std::flush;')
    w('      pid_t pid = fork();')
    w('      if (pid == 0) { alarm(40); dup2(1, 2); char* av[] = {argv[0], (char*)a.c_str(), (char*)b.c_str(), nullptr}; '
      'int rc = run_one(3, av); std::cout << std::flush; _exit(rc); }')
    w('      int st = 0; waitpid(pid, &st, 0);')
    w('      int rc = WIFEXITED(st) ? WEXITSTATUS(st) : -WTERMSIG(st);')
    w('      if (rc == 5 || rc == -14) stop = true;')
    w('      if (rc == 4) ++stalled;  // gating dropped, completed freely: every such run costs seconds')
    w('      std::cout << "\\n{\\"k\\":\\"done\\",\\"rc\\":" << rc << "}" << std::endl;')
    w('    }')
    w('    return 0;')
    w('  }')
    w('#endif')
    w('  return run_one(argc, argv);')
    w('}')
    return '\n'.join(o) + '\n'
