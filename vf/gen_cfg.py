"""Hypothesis strategies for configuration specs (vf/cfgspec.py) that are *valid* for a given shell
model: every way the configuration language can spell an assignment of STS/MTS to ports."""
from hypothesis import strategies as st

from vf import gen_shell

# incl. names that end in the characters of the '.dzn' extension
BASE_POOL = ['Toaster', 'File_1', 'model', 'X', 'MyModel', 'a', 'Garden', 'Buzz', 'Grid', 'dzn']
SUFFIX_POOL = ['Shell', 'AdvShell', '_adv', 'X', 'Shell2']
# incl. prefixes that repeat the name the generator appends itself (Dzn)
PREFIX_POOL = [None, None, ['My'], ['Lib', 'Util'], ['a', 'b', 'c'], ['Company_1'], ['Dzn'],
               ['Acme', 'Dzn'], ['Dzn', 'Tools'],
               # a deep prefix: the file names derived from it are > 140 characters long
               [f'Level{i}_abcdef' for i in range(12)]]
COPYRIGHTS = ['Copyright (c) me', '(c) A\nline two\n\n  indented', '', 'x */ #include <y> \\',
              'tab\tsep\x0cform feed', '// already a comment', 'cafe\u0301 \u2126 A\u030a (not NFC)',
              '\u00e9 \u00fc \u00a9 precomposed',
              # classic-Mac / stray carriage returns end a // comment for the C++ compilers
              '(c) classic\rMac line ends\rstatic_assert(false, "leaked from the copyright");',
              'crlf\r\nthen a lone\rcarriage return and a \x0b vertical tab \x85 nel \u2028 ls']


def spell_uniform(draw, sem, names, explicit=False):
    """Selections (sts, mts) that give every port of `names` the semantics `sem`."""
    forms = ['ALL', 'REMAINING'] + (['EXPLICIT'] if names else [])
    form = 'EXPLICIT' if (explicit and names) else draw(st.sampled_from(forms))
    if form == 'EXPLICIT':
        mine = draw(st.permutations(names))
        other = 'NONE'
    else:
        mine, other = form, 'NONE'
    return (list(mine) if isinstance(mine, (list, tuple)) else mine, other) if sem == 'STS' else \
        (other, list(mine) if isinstance(mine, (list, tuple)) else mine)


def spell_partition(draw, assign, explicit=False, form=None):
    """Selections (sts, mts) for an arbitrary {port: sem} assignment (requires side)."""
    sts = [p for p, s in assign.items() if s == 'STS']
    mts = [p for p, s in assign.items() if s == 'MTS']
    if not sts and not mts:
        return draw(st.sampled_from([('ALL', 'NONE'), ('NONE', 'ALL'), ('REMAINING', 'NONE'),
                                     ('NONE', 'REMAINING')]))
    if not mts:
        return spell_uniform(draw, 'STS', sts, explicit)
    if not sts:
        return spell_uniform(draw, 'MTS', mts, explicit)
    form = form or ('both' if explicit else draw(st.sampled_from(['both', 'sts+rem', 'rem+mts'])))
    if form == 'both':
        return list(draw(st.permutations(sts))), list(draw(st.permutations(mts)))
    if form == 'sts+rem':
        return list(draw(st.permutations(sts))), 'REMAINING'
    return 'REMAINING', list(draw(st.permutations(mts)))


@st.composite
def valid_spec(draw, sm, want_mc=None, want_mixed=None, explicit=False, req_form=None,
               shadow=False, prov_sem=None):
    table = gen_shell.port_table(sm)
    prov = [p['name'] for p in table if p['dir'] == 'provides']
    req = [p['name'] for p in table if p['dir'] == 'requires' and not p['injected']]
    cands = gen_shell.mc_candidates(sm)
    use_mc = bool(cands) and (want_mc if want_mc is not None else draw(st.integers(0, 2)) == 0)
    mc = None
    if use_mc:
        if 'many_provides' in sm.get('features', []):
            provs = [p['name'] for p in table if p['dir'] == 'provides']
            inner = [c for c in cands if c[0] in provs[1:-1]]
            cands = inner or cands
        if 'prefix_ports' in sm.get('features', []) and draw(st.booleans()):
            # port names that contain one another: make the multi-client port the longest one
            longest = max(len(c[0]) for c in cands)
            cands = [c for c in cands if len(c[0]) == longest]
        if 'sub_events' in sm.get('features', []):
            # the configured events are the ones with the longest names (their substrings are decoys)
            longest = max(len(c[1]['name']) + len(c[3]['name']) for c in cands)
            cands = [c for c in cands if len(c[1]['name']) + len(c[3]['name']) == longest]
        port, claim, enum, release = draw(st.sampled_from(cands))
        grant = draw(st.sampled_from(enum['elem']['fields']))
        mc = {'port': port, 'claim': claim['name'], 'grant': [grant], 'release': release['name']}
    psem = 'MTS' if use_mc else (prov_sem or draw(st.sampled_from(['STS', 'MTS'])))
    psts, pmts = spell_uniform(draw, psem, prov, explicit)
    if isinstance(want_mixed, str) and len(req) >= 2:
        # an explicit pattern, applied cyclically in declaration order (e.g. 'MSM')
        assign = {p: ('STS' if want_mixed[i % len(want_mixed)] == 'S' else 'MTS')
                  for i, p in enumerate(req)}
    elif want_mixed and len(req) >= 2:
        off = draw(st.integers(0, 2))
        if off == 2 and len(req) >= 3:  # one odd port out, somewhere
            k = draw(st.integers(0, len(req) - 1))
            odd = draw(st.sampled_from(['STS', 'MTS']))
            assign = {p: (odd if i == k else ('MTS' if odd == 'STS' else 'STS'))
                      for i, p in enumerate(req)}
        else:
            assign = {p: ('STS' if (i + off) % 2 == 0 else 'MTS') for i, p in enumerate(req)}
    else:
        assign = {p: draw(st.sampled_from(['STS', 'MTS'])) for p in req}
    rsts, rmts = spell_partition(draw, assign, explicit, req_form)
    decl_names = {e['name'][-1] for e in _scope_elems(sm)}
    base = draw(st.sampled_from(BASE_POOL))
    suffix = draw(st.sampled_from(SUFFIX_POOL))
    while base + suffix in decl_names:
        suffix += '_'
    prefix = draw(st.sampled_from(PREFIX_POOL))
    shadows = shadow_names(sm)
    if shadows and (shadow or draw(st.integers(0, 2)) == 0):
        # a support-files prefix that reuses the name of a nested namespace of the model
        n = draw(st.sampled_from(shadows))
        prefix = [n] if draw(st.booleans()) else [n, 'Util']
    spec = {'filename': draw(st.sampled_from(['/x/y/', '', '../rel/dir.d/', './'])) + base + '.dzn',
            'suffix': suffix, 'enc': list(sm['enc']),
            'enc_as': draw(st.sampled_from([None, None, None, 'dotted', 'colons', 'list'])),
            'prov': {'sts': psts, 'mts': pmts}, 'req': {'sts': rsts, 'mts': rmts}, 'mc': mc,
            'origin': draw(st.sampled_from(['CREATE', 'IMPORT'])),
            'copyright': draw(st.sampled_from(COPYRIGHTS)),
            'creator': draw(st.sampled_from([None, 'made by me', 'line1\nline2',
                                             'by\rme\r#error leaked from creator_info'])),
            'prefix': prefix}
    sem = {p: psem for p in prov}
    sem.update(assign)
    return {'spec': spec, 'semantics': sem}


def shadow_names(sm):
    """Namespace identifiers that occur below the root but not as a root-level name."""
    nested, root = [], set()

    def rec(elems, depth):
        for e in elems:
            if e['k'] == 'ns':
                for i, ident in enumerate(e['ids']):
                    if depth + i == 0:
                        root.add(ident)
                    elif ident not in nested:
                        nested.append(ident)
                rec(e['elems'], depth + len(e['ids']))
            elif depth == 0 and isinstance(e.get('name'), list):
                root.add(e['name'][-1])
    rec(sm['model']['root'], 0)
    return [n for n in nested if n not in root and n != 'Dzn']


def _scope_elems(sm):
    """Declarations in the encapsulee's scope (the shell struct lives there)."""
    from vf.model import declarations
    scope = tuple(sm['enc'][:-1])
    return [d['elem'] for d in declarations(sm['model']) if tuple(d['scope']) == scope]


@st.composite
def model_and_spec(draw, force=None, want_mc=None, want_mixed=None, collide=False,
                   explicit=False, req_form=None, shadow=False, prov_sem=None):
    feats = list(force or [])
    if want_mc:
        feats.append('mc_ready')
    sm = draw(gen_shell.shell_model(force=feats, collide=collide))
    vs = draw(valid_spec(sm, want_mc=want_mc, want_mixed=want_mixed, explicit=explicit,
                         req_form=req_form, shadow=shadow, prov_sem=prov_sem))
    return {'sm': sm, 'spec': vs['spec'], 'semantics': vs['semantics']}


# ---- build histories for the compile-based checks ---------------------------------------------

def prior_builds(case, kinds=('edited', 'origin', 'semantics', 'plain')):
    """Builds performed (with the same Builder, in the same process) *before* the build under
    test, in the order of `kinds`.  Each entry is {'spec': spec, 'model': model | None}; model
    None = the very parsed contents of the build under test.  What the checked build must deliver
    does not depend on them (C08 / C12), so every compile-based oracle applies unchanged."""
    import copy
    spec = {k: v for k, v in case['spec'].items() if k != '_prior'}
    out = []
    for kind in kinds:
        s2 = copy.deepcopy(spec)
        model = None
        if kind == 'origin':
            s2['origin'] = 'IMPORT' if spec['origin'] == 'CREATE' else 'CREATE'
        elif kind == 'semantics':
            flip = 'STS' if any(v == 'MTS' for v in case['semantics'].values()) else 'MTS'
            if spec.get('mc'):
                flip = 'MTS'
            uni = {'sts': 'ALL', 'mts': 'NONE'} if flip == 'STS' else {'sts': 'NONE', 'mts': 'ALL'}
            s2['prov'], s2['req'] = dict(uni), dict(uni)
        elif kind == 'edited':
            # an earlier revision of the same file: every interface lacks its last event (unless
            # the multi-client configuration names it), same file name, parsed on its own
            keep = set()
            if spec.get('mc'):
                keep = {spec['mc']['claim'], spec['mc']['release']}
            model = copy.deepcopy(case['sm']['model'])

            def rec(elems, keep=keep):
                for e in elems:
                    if e['k'] == 'ns':
                        rec(e['elems'])
                    elif e['k'] == 'interface' and len(e['events']) >= 2:
                        for i in range(len(e['events']) - 1, -1, -1):
                            if e['events'][i]['name'] not in keep:
                                del e['events'][i]
                                break
            rec(model['root'])
        out.append({'spec': s2, 'model': model})
    return out


def with_prior(case, kinds=('edited', 'origin', 'semantics', 'plain')):
    import copy
    c = dict(case)
    c['spec'] = copy.deepcopy(case['spec'])
    c['spec']['_prior'] = prior_builds(case, kinds)
    return c


def alternate_histories(cases, kinds):
    """Every second drawn case is built after a history of earlier builds."""
    return [with_prior(c, kinds) if i % 2 else c for i, c in enumerate(cases)]


# ---- client identifiers of a multi-client port ------------------------------------------------
# registration order = list order; families in which identifiers are prefixes of one another
# (longer first / shorter first) and one in reverse lexical order
CLIENT_NAMINGS = {
    # identifiers with surrounding white space (~s = blank, ~t = tab, ~r = CR in the driver's notation)
    'padded': ['Alice~s', '~sBob', 'Carol~t', 'Dave~r'],
    'plain': ['A', 'B', 'C', 'D'],
    'K': ['K0', 'K1', 'K2', 'K3'],
    'prefix-desc': ['client10', 'client1', 'client', 'c'],
    'prefix-asc': ['p', 'panel', 'panel-left', 'panel-left-2'],
    'reverse': ['z9', 'z', 'm', 'a'],
}


def client_names(naming, n):
    return CLIENT_NAMINGS[naming or 'plain'][:n]
