"""
Fuzzing dictionary harvested from the code under test (the classic "dictionary from the target"):
every identifier-shaped word that occurs inside a string constant of the library sources (comparison
operands, class tags, names the generated C++ introduces, pieces of the C++ templates), plus the
Python identifiers of the sources themselves.  A change that special-cases one particular name
(`Dzn`, `Locator`, `void`, 'enumsubint', ...) compares with a literal; drawing names from the
literals of the tree being checked reaches such a change without knowing it in advance.

The harvest is a pure function of the tree (sorted, no hashing, no clock).
"""
import ast
import os
import re

_WORD = re.compile(r'[A-Za-z_][A-Za-z0-9_]*')
_CACHE = {}


def _repo_src():
    import dznpy  # pylint: disable=import-outside-toplevel
    return os.path.dirname(os.path.abspath(dznpy.__file__))


def harvest(root=None):
    """{'short': [...], 'strings': [...], 'code': [...]}: words from short string constants (names,
    tags, comparison operands), from all other string constants, and identifiers of the sources."""
    root = root or _repo_src()
    if root in _CACHE:
        return _CACHE[root]
    strings, code, short = set(), set(), set()
    for dirpath, dirnames, filenames in os.walk(root):
        dirnames.sort()
        for fn in sorted(filenames):
            if not fn.endswith('.py'):
                continue
            try:
                with open(os.path.join(dirpath, fn), encoding='utf-8') as f:
                    tree = ast.parse(f.read())
            except (OSError, SyntaxError, ValueError):
                continue
            doc = set()
            for node in ast.walk(tree):
                if isinstance(node, (ast.Module, ast.FunctionDef, ast.ClassDef)) and node.body and \
                        isinstance(node.body[0], ast.Expr) and \
                        isinstance(node.body[0].value, ast.Constant):
                    doc.add(id(node.body[0].value))  # documentation, not data
            for node in ast.walk(tree):
                if id(node) in doc:
                    continue
                if isinstance(node, ast.Constant) and isinstance(node.value, str):
                    found = _WORD.findall(node.value)
                    strings.update(found)
                    if len(node.value) <= 32 and len(found) <= 3:
                        short.update(found)  # names, tags, comparison operands
                elif isinstance(node, ast.Name):
                    code.add(node.id)
                elif isinstance(node, ast.Attribute):
                    code.add(node.attr)
                elif isinstance(node, (ast.FunctionDef, ast.ClassDef)):
                    code.add(node.name)
                elif isinstance(node, ast.arg):
                    code.add(node.arg)
    out = {'short': sorted(w for w in short if len(w) <= 24),
           'strings': sorted(w for w in strings - short if len(w) <= 24),
           'code': sorted(w for w in code - strings if len(w) <= 24)}
    _CACHE[root] = out
    return out


def words(kind='strings', exclude=()):
    """Sorted words of the harvest with case variants (as written, lower, Capitalised), minus
    `exclude`."""
    base = harvest()[kind]
    out = []
    seen = set(exclude)
    for w in base:
        for v in (w, w.lower(), w[0].upper() + w[1:]):
            if v not in seen and _WORD.fullmatch(v):
                seen.add(v)
                out.append(v)
    return out
