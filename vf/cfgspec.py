"""
Configuration specs: JSON-able descriptions of an adv_shell Configuration, and the only place
that turns a spec into real dznpy objects - in the order given, which is how set-construction
order is varied (C08).

spec = {"filename": "/x/Toaster.dzn", "suffix": "Shell", "enc": [ids],
        "prov": {"sts": sel, "mts": sel}, "req": {"sts": sel, "mts": sel},
        "mc": None | {"port": str, "claim": str, "grant": [ids], "release": str},
        "origin": "CREATE" | "IMPORT", "copyright": str, "creator": str | None,
        "prefix": None | [ids]}
sel  = "ALL" | "REMAINING" | "NONE" | [name, ...]   (ordered list -> set built in that order)
"""
import orjson

from vf.to_json import to_json


def silence():
    """The parser print()s a line per skipped interface type; shadow that print in its module
    (redirecting sys.stdout is not thread safe and the compile-based checks run in threads)."""
    import dznpy.json_ast
    dznpy.json_ast.print = lambda *a, **k: None


def parse_model(model):
    from dznpy.json_ast import DznJsonAst
    silence()
    return DznJsonAst(orjson.dumps(to_json(model))).process()


def mk_select(sel):
    from dznpy.adv_shell import PortSelect, PortWildcard
    if isinstance(sel, str):
        return PortSelect(PortWildcard[sel])
    s = set()
    for name in sel:  # insertion order as given
        s.add(name)
    return PortSelect(s)


def mk_ports_cfg(spec):
    from dznpy.adv_shell import MultiClientPortCfg, PortsCfg, PortsSemanticsCfg
    from dznpy.scoping import NamespaceIds
    mc = None
    if spec.get('mc'):
        m = spec['mc']
        mc = MultiClientPortCfg(m['port'], m['claim'], NamespaceIds(list(m['grant'])), m['release'])
    return PortsCfg(provides=PortsSemanticsCfg(sts=mk_select(spec['prov']['sts']),
                                               mts=mk_select(spec['prov']['mts'])),
                    requires=PortsSemanticsCfg(sts=mk_select(spec['req']['sts']),
                                               mts=mk_select(spec['req']['mts'])),
                    multiclient=mc)


def enc_name(spec):
    """The encapsulee name in the spelling the spec asks for (Builder.build feeds it through
    ns_ids_t, which accepts NamespaceIds, lists, dotted and '::' strings)."""
    from dznpy.scoping import NamespaceIds
    how = spec.get('enc_as')
    ids = list(spec['enc'])
    if not ids and how in ('dotted', 'colons'):
        return ''  # no name at all, as a string
    if how == 'dotted' and len(ids) > 1:
        return '.'.join(ids)
    if how == 'colons' and len(ids) > 1:
        return '::'.join(ids)
    if how == 'list':
        return ids
    return NamespaceIds(ids)


def mk_configuration(spec, fc):
    from dznpy.adv_shell import Configuration
    from dznpy.adv_shell.common import FacilitiesOrigin
    from dznpy.scoping import NamespaceIds
    return Configuration(
        dezyne_filename=spec['filename'], ast_fc=fc, output_basename_suffix=spec['suffix'],
        fqn_encapsulee_name=enc_name(spec), ports_cfg=mk_ports_cfg(spec),
        facilities_origin=FacilitiesOrigin[spec['origin']], copyright=spec['copyright'],
        support_files_ns_prefix=None if spec.get('prefix') is None else NamespaceIds(
            list(spec['prefix'])),
        creator_info=spec.get('creator'))


def build(spec, model=None, fc=None, builder=None):
    """Parse (unless fc is given), configure, build.  Returns the CodeGenResult."""
    from dznpy.adv_shell import Builder
    if fc is None:
        fc = parse_model(model)
    cfg = mk_configuration(spec, fc)
    silence()
    return (builder or Builder()).build(cfg)


def outcome(spec, model=None, fc=None, builder=None):
    """('ok', [(filename, contents, hash)]) or ('err', exception)."""
    try:
        res = build(spec, model=model, fc=fc, builder=builder)
    except Exception as exc:  # pylint: disable=broad-except
        return 'err', exc
    return 'ok', [(f.filename, f.contents, f.hash) for f in res.files]


def library_error(exc):
    """Is the exception class defined in the dznpy package (one of the library's own errors)?"""
    return type(exc).__module__.split('.')[0] == 'dznpy' and str(exc) != ''
