"""Delta debugging over (shell model, configuration) cases of the compile-based checks: drop ports,
events, formals, declarations and configuration detail while the failure signature persists.
Candidates of one round are evaluated in parallel; the first one (in a fixed order) that still
fails with the same signature is taken."""
import copy
from concurrent.futures import ThreadPoolExecutor

from vf.model import declarations


def _enc_elem(sm):
    for d in declarations(sm['model']):
        if list(d['fqn']) == list(sm['enc']) and d['kind'] in ('component', 'system'):
            return d['elem']
    return None


def _all_elems(model):
    out = []

    def rec(elems):
        for e in elems:
            out.append((elems, e))
            if e['k'] == 'ns':
                rec(e['elems'])
    rec(model['root'])
    return out


def candidates(case):
    """Smaller variants of the case, most aggressive first."""
    out = []
    spec = case['spec']
    mc = spec.get('mc') or {}
    # 0. a shorter build history
    prior = spec.get('_prior') or []
    if prior:
        c = copy.deepcopy(case)
        del c['spec']['_prior']
        out.append(c)
        if len(prior) > 1:
            for i in range(len(prior)):
                c = copy.deepcopy(case)
                del c['spec']['_prior'][i]
                out.append(c)
    enc = _enc_elem(case['sm'])
    n_ports = len(enc['ports']) if enc else 0
    # 1. drop a port
    for i in range(n_ports):
        c = copy.deepcopy(case)
        e = _enc_elem(c['sm'])
        name = e['ports'][i]['name']
        if name == mc.get('port'):
            continue
        del e['ports'][i]
        if e['k'] == 'system':
            e['bindings'] = [b for b in e['bindings'] if b['left']['port'] != name]
        for side in ('prov', 'req'):
            for sem in ('sts', 'mts'):
                sel = c['spec'][side][sem]
                if isinstance(sel, list) and name in sel:
                    sel.remove(name)
                    if not sel:
                        c['spec'][side][sem] = 'NONE' if c['spec'][side][
                            'mts' if sem == 'sts' else 'sts'] != 'NONE' else 'ALL'
        c.get('semantics', {}).pop(name, None)
        out.append(c)
    # 2. drop an event / 3. drop a formal
    idx = 0
    for _cont, e in _all_elems(case['sm']['model']):
        if e['k'] != 'interface':
            continue
        for j, ev in enumerate(e['events']):
            if ev['name'] not in (mc.get('claim'), mc.get('release')):
                c = copy.deepcopy(case)
                itf = [x for _, x in _all_elems(c['sm']['model']) if x['k'] == 'interface'][idx]
                del itf['events'][j]
                out.append(c)
            for k in range(len(ev['formals'])):
                c = copy.deepcopy(case)
                itf = [x for _, x in _all_elems(c['sm']['model']) if x['k'] == 'interface'][idx]
                del itf['events'][j]['formals'][k]
                out.append(c)
        idx += 1
    # 4. drop a declaration / an empty namespace
    flat = _all_elems(case['sm']['model'])
    for pos, (_cont, e) in enumerate(flat):
        if e is enc or (e['k'] == 'ns' and e['elems']):
            continue
        c = copy.deepcopy(case)
        cont2, e2 = _all_elems(c['sm']['model'])[pos]
        cont2.remove(e2)
        out.append(c)
    # 5. plainer configuration
    for key, val in (('prefix', None), ('creator', None), ('copyright', '(c)'), ('suffix', 'Shell')):
        if spec.get(key) != val:
            c = copy.deepcopy(case)
            c['spec'][key] = val
            out.append(c)
    return out


def shrink(case, same_failure, rounds=5, per_round=48, workers=16):
    """same_failure(case) -> bool (runs the check; True if it fails with the original signature).
    Every round evaluates up to `per_round` candidates in parallel and adopts the first that still
    fails the same way."""
    for _ in range(rounds):
        cands = candidates(case)[:per_round]
        if not cands:
            break
        with ThreadPoolExecutor(max_workers=workers) as ex:
            results = list(ex.map(same_failure, cands))
        for cand, ok in zip(cands, results):
            if ok:
                case = cand
                break
        else:
            break
    return case
