"""Coverage-guided fuzz target for C15 (atheris / libFuzzer).  Run as
    python -m vf.fuzz_c15 <crash-file> [libFuzzer options] [corpus dir]
The fuzzer's bytes are decoded into (base document, 1-4 structural mutations) - the same case
format as the Hypothesis clause `documented_errors` of vf/props/c15.py - so that a finding is
replayable with `./check C15 --replay`.  The oracle is inside the target."""
import json
import sys

import atheris

with atheris.instrument_imports(include=['dznpy']):
    import dznpy.json_ast  # noqa: F401
    import dznpy.scoping  # noqa: F401

from vf import mutate_json  # noqa: E402
from vf.props import c15  # noqa: E402
from vf.runner import Fail  # noqa: E402

CRASH_FILE = None
BASES = []


def load_bases():
    """A handful of fixed well-formed models (drawn once, deterministically)."""
    from vf import gen_doc
    from vf.draw import draw_cases
    import hypothesis.strategies as st
    for c in draw_cases(st.fixed_dictionaries({'model': gen_doc.doc_model(max_depth=3),
                                               'noise': gen_doc.noise()}), 12, 7):
        BASES.append(c)


def small_json(fdp, depth=0):
    k = fdp.ConsumeIntInRange(0, 9 if depth < 2 else 5)
    if k == 0:
        return None
    if k == 1:
        return fdp.ConsumeBool()
    if k == 2:
        return fdp.ConsumeIntInRange(-3, 3)
    if k == 3:
        return fdp.ConsumeUnicodeNoSurrogates(6)
    if k == 4:
        return fdp.PickValueInList(mutate_json.KNOWN_CLASSES + ['bogus'])
    if k == 5:
        return fdp.PickValueInList(mutate_json.BAD_IDENTS)
    if k in (6, 7):
        return [small_json(fdp, depth + 1) for _ in range(fdp.ConsumeIntInRange(0, 3))]
    return {fdp.PickValueInList(['<class>', 'name', 'elements', 'ids', 'types', 'ports', 'x']):
            small_json(fdp, depth + 1) for _ in range(fdp.ConsumeIntInRange(0, 3))}


def one_input(data):
    fdp = atheris.FuzzedDataProvider(data)
    base = BASES[fdp.ConsumeIntInRange(0, len(BASES) - 1)]
    muts = []
    for _ in range(fdp.ConsumeIntInRange(1, 4)):
        muts.append({'at': fdp.ConsumeIntInRange(0, 10 ** 6),
                     'op': fdp.PickValueInList(mutate_json.OPS), 'arg': small_json(fdp)})
    case = {'model': base['model'], 'noise': base['noise'], 'mutations': muts}
    try:
        c15.check_documented_errors(case)
    except Fail as f:
        with open(CRASH_FILE, 'w', encoding='utf-8') as fh:
            json.dump({'case': case, 'msg': f.msg, 'sig': f.sig}, fh)
        raise
    except Exception as exc:  # pylint: disable=broad-except
        from vf.runner import dznpy_frame, exc_sig
        if dznpy_frame(exc):
            with open(CRASH_FILE, 'w', encoding='utf-8') as fh:
                json.dump({'case': case, 'msg': f'{type(exc).__name__}: {exc}', 'sig': exc_sig(exc)},
                          fh)
        raise


def main():
    global CRASH_FILE  # pylint: disable=global-statement
    CRASH_FILE = sys.argv[1]
    from vf.cfgspec import silence
    silence()
    load_bases()
    atheris.Setup([sys.argv[0]] + sys.argv[2:], one_input)
    atheris.Fuzz()


if __name__ == '__main__':
    main()
