"""
Common runner for all property checks (see DESIGN.md section 0).

Exit codes: 0 property held on everything explored / 1 violation (line
"VIOLATION property=<id> replay=<path>") / 2 harness error.

A property module (vf/props/cNN.py) exposes

    RULE         str   how cases are generated and what makes one non-trivial / distinct
    ASSUMPTIONS  list  what the check assumes / trusts
    LEVEL        str   evidence level (default "exploration")
    SHARDS       dict  optional {'quick': n, 'thorough': m}: number of worker processes
    def run(ctx): ...  executes the clauses through ctx.clause(...) / ctx.enumerate(...)

Every clause has a *check function* that takes one JSON-able case and raises `Fail` when the
oracle is violated.  Exceptions escaping from the code under test (a frame inside the dznpy
package is on the traceback) are turned into `Fail` as well; any other exception is a harness
error (exit 2).
"""
import hashlib
import importlib
import json
import os
import resource
import signal
import subprocess
import sys
import tempfile
import time
import traceback
from collections import Counter

VERIF_DIR = os.path.dirname(os.path.dirname(os.path.abspath(__file__)))
REPO = os.path.abspath(os.environ.get('VERIF_REPO', '/repo'))
REPO_SRC = os.path.join(REPO, 'src')
KNOWN_FINDINGS = os.path.join(VERIF_DIR, 'known_findings.txt')
MAX_ROOT_CAUSES = 6  # per clause: how often the search is continued behind a recorded failure


CASE_TIMEOUT_S = 300  # one check call (a compile-based case may legitimately take a minute)
MEM_LIMIT_GB = 8


class CaseTimeout(BaseException):
    """Raised by the per-case watchdog (SIGALRM)."""


def _on_alarm(_sig, _frame):
    raise CaseTimeout()


def limit_memory():
    """Soft address-space limit for this interpreter (and the Python workers it starts), so that a
    runaway loop in changed code under test ends in MemoryError instead of exhausting the sandbox.
    Compilers and sanitizer-instrumented binaries lift it again (lift_limits)."""
    _soft, hard = resource.getrlimit(resource.RLIMIT_AS)
    resource.setrlimit(resource.RLIMIT_AS, (MEM_LIMIT_GB * 1024 ** 3, hard))


def lift_limits():
    """preexec_fn for child processes that need the full address space (TSan/ASan, g++)."""
    _soft, hard = resource.getrlimit(resource.RLIMIT_AS)
    resource.setrlimit(resource.RLIMIT_AS, (hard, hard))


class Fail(Exception):
    """The oracle of a clause is violated.  `sig` identifies the root cause as well as we can."""

    def __init__(self, msg, sig=None):
        super().__init__(msg)
        self.msg = msg
        self.sig = sig


class HarnessError(Exception):
    """Something is wrong with the checking machinery itself."""


def canon(case) -> str:
    return json.dumps(case, sort_keys=True, default=repr, ensure_ascii=True)


def case_hash(case) -> str:
    return hashlib.sha1(canon(case).encode()).hexdigest()[:14]


def dznpy_frame(exc):
    """Innermost traceback frame that lies inside the dznpy package under test, or None."""
    found = None
    tb = exc.__traceback__
    while tb is not None:
        fn = tb.tb_frame.f_code.co_filename
        if os.path.abspath(fn).startswith(REPO_SRC + os.sep):
            found = (os.path.relpath(fn, REPO_SRC), tb.tb_frame.f_code.co_name)
        tb = tb.tb_next
    return found


def exc_sig(exc) -> str:
    fr = dznpy_frame(exc)
    where = f'{fr[0]}:{fr[1]}' if fr else '?'
    return f'{type(exc).__name__}@{where}'


def short(obj, limit=1500):
    s = canon(obj)
    return obj if len(s) <= limit else {'truncated_repr': s[:limit] + '...'}


class Ctx:
    """Per-run context: counting, evidence, violations, known findings."""

    def __init__(self, prop, tier, seed, shard=None, replay=None):
        self.prop = prop
        self.tier = tier
        self.base_seed = seed
        self.shard = shard  # (k, n) or None
        self.seed = seed if shard is None else seed * 1000 + shard[0]
        self.replay = replay  # dict loaded from a replay file, or None
        self.evaluations = 0
        self.hashes = set()
        self.samples = []
        self.classes = Counter()
        self.excluded = Counter()
        self.inconclusive = Counter()
        self.violations = []  # dicts: clause, sig, msg, case
        self.extra = {}  # extra coverage keys
        self.exhaustive = None
        self.t0 = time.time()
        self.clauses_run = []
        self._sample_next = 1
        self.counted_nontrivial = 0  # distinct-by-construction cases of large enumerations

    # ---- sizes
    @property
    def quick(self):
        return self.tier == 'quick'

    def n(self, quick, thorough):
        """Number of cases for this tier (divided over the shards)."""
        total = quick if self.quick else thorough
        if self.shard:
            k, n = self.shard
            return max(1, total // n + (1 if k < total % n else 0))
        return total

    def mine(self, index):
        """For enumerations: is item `index` handled by this shard?"""
        return self.shard is None or index % self.shard[1] == self.shard[0]

    # ---- bookkeeping
    def record(self, case, nontrivial, labels=()):
        self.evaluations += 1
        for lab in labels:
            self.classes[lab] += 1
        if nontrivial:
            h = case_hash(case)
            if h not in self.hashes:
                self.hashes.add(h)
                if len(self.hashes) >= self._sample_next and len(self.samples) < 6:
                    self.samples.append(short(case))
                    self._sample_next *= 8

    def count_enumerated(self, evaluations, nontrivial, labels=()):
        """Bulk bookkeeping for big enumerations whose cases are distinct by construction (no
        per-case hashing)."""
        self.evaluations += evaluations
        self.counted_nontrivial += nontrivial
        for lab in labels:
            self.classes[lab] += evaluations

    def add_violation(self, clause, fail, case):
        sig = f'{clause}:{fail.sig or "oracle"}'
        self.violations.append({'clause': clause, 'sig': sig, 'msg': fail.msg[:4000], 'case': case})
        if os.environ.get('VERIF_FAST_FAIL') and not known_finding(self.prop, sig):
            # sensitivity tooling only (tools/all_seeded.sh, mutation campaign): the first violation
            # settles "caught"; no search behind it, no minimisation, no evidence
            print(f'--- {self.prop} clause {clause} sig={sig}', flush=True)
            print(f'VIOLATION property={self.prop} replay=(fast-fail run, no replay written)', flush=True)
            sys.stdout.flush()
            os._exit(1)

    # ---- running one clause under Hypothesis
    def clause(self, name, strategy, check, n, nontrivial=lambda c: True, labels=lambda c: (),
               shrink=True):
        """Generate `n` cases from `strategy`; `check(case)` raises Fail on an oracle violation.
        The search is continued behind each recorded failure (its signature is then tolerated and
        counted as excluded) so that one shallow defect does not hide the others."""
        self.clauses_run.append(name)
        if self.replay is not None:
            if self.replay.get('clause') == name:
                self._run_one(name, check, self.replay['case'])
            return
        for case in load_regress(self.prop, name):
            self.record(case, True, ('regress',))
            self._run_one(name, check, case)

        import hypothesis
        import hypothesis.errors
        from hypothesis import HealthCheck, Phase, given, settings

        tolerated = {v['sig'] for v in self.violations if v['clause'] == name}
        for rnd in range(MAX_ROOT_CAUSES):
            state = {}

            def body(case):
                self.record(case, nontrivial(case), labels(case))
                try:
                    self._guard(check, case)
                except Fail as f:
                    if f'{name}:{f.sig or "oracle"}' in tolerated:
                        self.excluded[f'{name}:{f.sig or "oracle"}'] += 1
                        return
                    state['last'] = (case, f)
                    raise

            phases = [Phase.generate] + ([Phase.shrink] if shrink else [])
            test = hypothesis.seed(self.seed + 7919 * rnd)(
                settings(max_examples=n, database=None, deadline=None, report_multiple_bugs=False,
                         suppress_health_check=list(HealthCheck), phases=phases,
                         print_blob=False, derandomize=False)(given(strategy)(body)))
            try:
                test()
            except hypothesis.errors.Flaky:
                if 'last' not in state:
                    raise
                case, f = state['last']  # a failure was observed; it did not replay identically
                self.add_violation(name, Fail(f.msg + ' [flaky on replay]', f.sig), case)
                tolerated.add(f'{name}:{f.sig or "oracle"}')
                continue
            except Fail:
                case, f = state['last']
                self.add_violation(name, f, case)
                tolerated.add(f'{name}:{f.sig or "oracle"}')
                continue
            break

    def enumerate(self, name, cases, check, nontrivial=lambda c: True, labels=lambda c: ()):
        """Run `check` over an explicit iterable of cases (finite enumeration).  All failures are
        collected; one representative per signature is reported."""
        self.clauses_run.append(name)
        if self.replay is not None:
            if self.replay.get('clause') == name:
                self._run_one(name, check, self.replay['case'])
            return
        seen = set()
        if self.shard is None or self.shard[0] == 0:
            for case in load_regress(self.prop, name):
                self.record(case, True, ('regress',))
                self._run_one(name, check, case)
        for i, case in enumerate(cases):
            if not self.mine(i):
                continue
            self.record(case, nontrivial(case), labels(case))
            try:
                self._guard(check, case)
            except Fail as f:
                sig = f'{name}:{f.sig or "oracle"}'
                if sig in seen:
                    self.excluded[sig] += 1
                    continue
                seen.add(sig)
                self.add_violation(name, f, case)

    def _run_one(self, name, check, case):
        try:
            self._guard(check, case)
        except Fail as f:
            self.add_violation(name, f, case)

    @staticmethod
    def _guard(check, case):
        """Run check(case); exceptions escaping from the code under test become Fail.  The Fail is
        raised outside the except block so that it carries no __context__ (Hypothesis keys
        failures on the origin of the exception including its context)."""
        err = None
        signal.setitimer(signal.ITIMER_REAL, CASE_TIMEOUT_S)
        try:
            check(case)
        except Fail:
            raise
        except CaseTimeout:
            err = Fail(f'no result within {CASE_TIMEOUT_S} s (hang)', 'hang')
        except MemoryError:
            err = Fail(f'MemoryError under the {MEM_LIMIT_GB} GB address-space limit', 'memory')
        except RecursionError as exc:  # the traceback is useless but dznpy is on it
            if not dznpy_frame(exc):
                raise
            err = Fail(f'RecursionError: {str(exc)[:80]}', exc_sig(exc))
        except Exception as exc:  # pylint: disable=broad-except
            if type(exc).__module__.startswith('hypothesis') or not dznpy_frame(exc):
                raise
            tb = ''.join(traceback.format_exception(type(exc), exc, exc.__traceback__)[-6:])
            err = Fail(f'unexpected {type(exc).__name__}: {exc}\n{tb}', exc_sig(exc))
        finally:
            signal.setitimer(signal.ITIMER_REAL, 0)
        if err is not None:
            raise err


def load_regress(prop, clause):
    d = os.path.join(VERIF_DIR, 'regress', prop)
    out = []
    if os.path.isdir(d):
        for fn in sorted(os.listdir(d)):
            if fn.endswith('.json'):
                with open(os.path.join(d, fn), encoding='utf-8') as fh:
                    doc = json.load(fh)
                if doc.get('clause') == clause:
                    out.append(doc['case'])
    return out


def load_known_findings(prop):
    """Lines `finding: property=<id> sig=<signature> <text>` (signature without blanks)."""
    out = {}
    if os.path.exists(KNOWN_FINDINGS):
        with open(KNOWN_FINDINGS, encoding='utf-8') as fh:
            for line in fh:
                line = line.strip()
                if not line.startswith('finding:'):
                    continue
                parts = line.split(None, 3)
                if len(parts) >= 3 and parts[1] == f'property={prop}' and parts[2].startswith('sig='):
                    out[parts[2][4:]] = parts[3] if len(parts) > 3 else ''
    return out


def known_finding(prop, sig):
    known = load_known_findings(prop)
    return sig in known or any(p.endswith('*') and sig.startswith(p[:-1]) for p in known)


# --------------------------------------------------------------------------------------------
# process set-up


def ensure_environment():
    """Re-exec once with a pinned hash seed and the repository's sources first on sys.path."""
    want_path = os.pathsep.join([REPO_SRC, VERIF_DIR, os.path.join(VERIF_DIR, '.deps')])
    if os.environ.get('VF_BOOTSTRAPPED') != '1':
        env = dict(os.environ)
        env['VF_BOOTSTRAPPED'] = '1'
        env.setdefault('PYTHONHASHSEED', '0')
        env['PYTHONDONTWRITEBYTECODE'] = '1'
        env['PYTHONPATH'] = want_path
        os.execve(sys.executable, [sys.executable, '-m', 'vf'] + sys.argv[1:], env)
    limit_memory()
    signal.signal(signal.SIGALRM, _on_alarm)
    import dznpy
    if not os.path.abspath(dznpy.__file__).startswith(REPO_SRC + os.sep):
        raise HarnessError(f'dznpy imported from {dznpy.__file__}, expected below {REPO_SRC}')


def parse_args(argv):
    import argparse
    ap = argparse.ArgumentParser(prog='check')
    ap.add_argument('prop')
    ap.add_argument('--tier', default=os.environ.get('VERIF_TIER') or 'quick',
                    choices=['quick', 'thorough'])
    ap.add_argument('--replay')
    ap.add_argument('--shard')  # internal: k/n
    ap.add_argument('--partial')  # internal: where a shard writes its result
    ap.add_argument('--no-evidence', action='store_true')
    return ap.parse_args(argv)


def partial_of(ctx):
    return {'evaluations': ctx.evaluations, 'hashes': sorted(ctx.hashes), 'samples': ctx.samples,
            'classes': dict(ctx.classes), 'excluded': dict(ctx.excluded),
            'inconclusive': dict(ctx.inconclusive), 'violations': ctx.violations,
            'extra': ctx.extra, 'exhaustive': ctx.exhaustive, 'clauses': ctx.clauses_run,
            'counted_nontrivial': ctx.counted_nontrivial}


def merge_partial(ctx, part):
    ctx.evaluations += part['evaluations']
    ctx.counted_nontrivial += part.get('counted_nontrivial', 0)
    ctx.hashes.update(part['hashes'])
    for s in part['samples']:
        if len(ctx.samples) < 6:
            ctx.samples.append(s)
    ctx.classes.update(part['classes'])
    ctx.excluded.update(part['excluded'])
    ctx.inconclusive.update(part['inconclusive'])
    have = {v['sig'] for v in ctx.violations}
    for v in part['violations']:
        if v['sig'] not in have:
            have.add(v['sig'])
            ctx.violations.append(v)
    for k, v in part['extra'].items():
        if isinstance(v, int) and isinstance(ctx.extra.get(k), int):
            ctx.extra[k] += v
        else:
            ctx.extra.setdefault(k, v)
    if part['exhaustive'] is not None:
        ctx.exhaustive = part['exhaustive'] if ctx.exhaustive is None else \
            (ctx.exhaustive and part['exhaustive'])
    for c in part['clauses']:
        if c not in ctx.clauses_run:
            ctx.clauses_run.append(c)


def main(argv=None):
    args = parse_args(sys.argv[1:] if argv is None else argv)
    prop = args.prop.upper()
    try:
        seed = int(os.environ.get('VERIF_SEED') or '1')
    except ValueError:
        seed = 1
    mod = importlib.import_module(f'vf.props.{prop.lower()}')
    replay = None
    if args.replay:
        with open(args.replay, encoding='utf-8') as fh:
            replay = json.load(fh)

    shard = None
    if args.shard:
        k, n = args.shard.split('/')
        shard = (int(k), int(n))
    ctx = Ctx(prop, args.tier, seed, shard=shard, replay=replay)

    nshards = getattr(mod, 'SHARDS', {}).get(args.tier, 1)
    if shard is None and replay is None and nshards > 1:
        with tempfile.TemporaryDirectory(prefix='vf_shards_') as tmp:
            procs = []
            for k in range(nshards):
                part = os.path.join(tmp, f'p{k}.json')
                cmd = [sys.executable, '-m', 'vf', prop, '--tier', args.tier,
                       '--shard', f'{k}/{nshards}', '--partial', part]
                procs.append((subprocess.Popen(cmd, cwd=VERIF_DIR), part))
            for proc, part in procs:
                rc = proc.wait()
                if rc == 2 or not os.path.exists(part):
                    raise HarnessError(f'shard failed with exit status {rc}')
                with open(part, encoding='utf-8') as fh:
                    merge_partial(ctx, json.load(fh))
    else:
        mod.run(ctx)

    if args.partial:
        with open(args.partial, 'w', encoding='utf-8') as fh:
            json.dump(partial_of(ctx), fh, default=repr)
        return 0
    return finish(ctx, mod, write_evidence=(replay is None and not args.no_evidence))


def finish(ctx, mod, write_evidence=True):
    known = load_known_findings(ctx.prop)
    new, listed = [], []
    def lookup_known(sig):
        if sig in known:
            return sig
        for pat in known:
            if pat.endswith('*') and sig.startswith(pat[:-1]):
                return pat
        return None
    for v in ctx.violations:
        pat = lookup_known(v['sig'])
        if pat is None:
            new.append(v)
        else:
            v['known'] = pat
            listed.append(v)

    lines = []
    for v in listed:
        lines.append(f'KNOWN-FINDING: property={ctx.prop} {known[v["known"]]} [sig={v["sig"]}]')
    for v in new:
        rdir = os.path.join(VERIF_DIR, 'replays', ctx.prop)
        os.makedirs(rdir, exist_ok=True)
        doc = {'property': ctx.prop, 'clause': v['clause'], 'sig': v['sig'], 'msg': v['msg'],
               'case': v['case'], 'seed': ctx.base_seed, 'tier': ctx.tier}
        path = os.path.join(rdir, case_hash([v['sig'], v['case']]) + '.json')
        with open(path, 'w', encoding='utf-8') as fh:
            json.dump(doc, fh, indent=1, default=repr)
        print(f'--- {ctx.prop} clause {v["clause"]} sig={v["sig"]}\n{v["msg"]}\ncase: '
              f'{canon(v["case"])[:3000]}', flush=True)
        lines.append(f'VIOLATION property={ctx.prop} replay={os.path.relpath(path, VERIF_DIR)}')

    if write_evidence:
        cov = {'evaluations': ctx.evaluations,
               'distinct_nontrivial': len(ctx.hashes) + ctx.counted_nontrivial,
               'rule': getattr(mod, 'RULE', ''), 'samples': ctx.samples[:8],
               'classes': dict(ctx.classes.most_common(60)), 'clauses': ctx.clauses_run,
               'excluded': dict(ctx.excluded), 'inconclusive': dict(ctx.inconclusive),
               'known_findings_seen': [v['sig'] for v in listed]}
        if ctx.exhaustive is not None:
            cov['exhaustive'] = ctx.exhaustive
        cov.update(ctx.extra)
        ev = {'property_id': ctx.prop, 'tier': ctx.tier, 'seed': ctx.base_seed,
              'level': getattr(mod, 'LEVEL', 'exploration'), 'coverage': cov,
              'assumptions': list(getattr(mod, 'ASSUMPTIONS', [])),
              'wall_s': round(time.time() - ctx.t0, 2), 'violations': len(new)}
        os.makedirs(os.path.join(VERIF_DIR, 'evidence'), exist_ok=True)
        tmp = os.path.join(VERIF_DIR, 'evidence', f'.{ctx.prop}.tmp')
        with open(tmp, 'w', encoding='utf-8') as fh:
            json.dump(ev, fh, indent=1, default=repr)
        os.replace(tmp, os.path.join(VERIF_DIR, 'evidence', f'{ctx.prop}.json'))

    for line in lines:
        print(line, flush=True)
    print(f'{ctx.prop} {ctx.tier} seed={ctx.base_seed}: {ctx.evaluations} evaluations, '
          f'{len(ctx.hashes) + ctx.counted_nontrivial} distinct non-trivial, {len(new)} violation(s), '
          f'{len(listed)} known finding(s), {round(time.time() - ctx.t0, 1)} s', flush=True)
    return 1 if new else 0


def entry():
    try:
        ensure_environment()
        sys.exit(main())
    except SystemExit:
        raise
    except BaseException as exc:  # pylint: disable=broad-except
        traceback.print_exc()
        print(f'HARNESS ERROR: {type(exc).__name__}: {exc}', file=sys.stderr)
        sys.exit(2)
