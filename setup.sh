#!/bin/sh
# Offline setup: make sure hypothesis (and, optionally, atheris) are importable by /venv/bin/python.
# Nothing is installed into /venv itself; missing packages go to /verif/.deps (on sys.path of every check).
set -e
cd "$(dirname "$0")"
mkdir -p .deps evidence replays
need=""
PYTHONPATH=.deps /venv/bin/python -c "import hypothesis" 2>/dev/null || need="$need hypothesis"
PYTHONPATH=.deps /venv/bin/python -c "import atheris" 2>/dev/null || need="$need atheris"
for p in $need; do
  /venv/bin/pip install -q --no-index --find-links /opt/veriftools/wheels --target .deps "$p" || echo "setup: could not install $p (optional for atheris)"
done
PYTHONPATH=.deps /venv/bin/python -c "import hypothesis, orjson; print('setup ok: hypothesis', hypothesis.__version__)"
g++ --version | head -1
