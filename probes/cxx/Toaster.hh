#pragma once
#include <dzn/meta.hh>
#include <dzn/locator.hh>
#include <dzn/runtime.hh>
#include <string>
namespace My { struct InfoT { int v=0; }; 
struct Result { enum type { Ok, Fail }; };
struct IApi {
  dzn::port::meta meta;
  struct { std::function< ::My::Result::type(::My::InfoT&)> Grab; std::function<void(std::string&)> Unclaim; std::function< ::My::Result::type(std::string, ::My::InfoT&)> Toast; std::function<void()> Cancel; } in;
  struct { std::function<void()> Ok; std::function<void(::My::InfoT)> Fail; } out;
  IApi(const dzn::port::meta& m): meta(m) {}
  void check_bindings() const { if(!in.Grab) throw dzn::binding_error(meta,"in.Grab"); if(!in.Unclaim) throw dzn::binding_error(meta,"in.Unclaim"); if(!in.Toast) throw dzn::binding_error(meta,"in.Toast"); if(!in.Cancel) throw dzn::binding_error(meta,"in.Cancel"); if(!out.Ok) throw dzn::binding_error(meta,"out.Ok"); if(!out.Fail) throw dzn::binding_error(meta,"out.Fail"); }
};
struct IHw {
  dzn::port::meta meta;
  struct { std::function<void()> On; std::function<bool(::My::InfoT&)> Get; } in;
  struct { std::function<void(std::string)> Tripped; } out;
  IHw(const dzn::port::meta& m): meta(m) {}
  void check_bindings() const { if(!in.On) throw dzn::binding_error(meta,"in.On"); if(!in.Get) throw dzn::binding_error(meta,"in.Get"); if(!out.Tripped) throw dzn::binding_error(meta,"out.Tripped"); }
};
namespace Project {
struct Toaster; } } extern My::Project::Toaster* g_last; namespace My { namespace Project {
struct Toaster : dzn::component {
  bool held=false; dzn::meta dzn_meta; dzn::runtime& dzn_rt; const dzn::locator& dzn_locator;
  ::My::IApi api; ::My::IHw hw; ::My::IHw hw2; ::My::IHw cfg;
  Toaster(const dzn::locator& l): dzn_meta{"","Toaster",nullptr,{},{},{}}, dzn_rt(l.get<dzn::runtime>()), dzn_locator(l),
    api({{"api",&api,this,&dzn_meta},{"",nullptr,nullptr,nullptr}}), hw({{"",nullptr,nullptr,nullptr},{"hw",&hw,this,&dzn_meta}}), hw2({{"",nullptr,nullptr,nullptr},{"hw2",&hw2,this,&dzn_meta}}), cfg({{"",nullptr,nullptr,nullptr},{"cfg",&cfg,this,&dzn_meta}}) {
    g_last=this; api.in.Grab=[&](::My::InfoT& i){ if(held) return ::My::Result::Fail; held=true; return ::My::Result::Ok; }; api.in.Unclaim=[&](std::string& s){ held=false; }; api.in.Toast=[&](std::string, ::My::InfoT&){ return ::My::Result::Fail; }; api.in.Cancel=[]{};
    hw.out.Tripped=[](std::string){}; hw2.out.Tripped=[](std::string){}; cfg.out.Tripped=[](std::string){};
  }
  void check_bindings() const { api.check_bindings(); hw.check_bindings(); hw2.check_bindings(); }
};
}}
