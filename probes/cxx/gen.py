import sys, json, os
sys.path.insert(0,'/repo/src')
from dznpy.json_ast import DznJsonAst
from dznpy.adv_shell import *
from dznpy.adv_shell.common import FacilitiesOrigin
from dznpy.scoping import ns_ids_t
def sn(*ids): return {"<class>":"scope_name","ids":list(ids)}
def formal(n,t,d): return {"<class>":"formal","name":n,"type_name":sn(*t.split('.')),"direction":d}
def ev(name,ret,dirn,formals): return {"<class>":"event","name":name,"signature":{"<class>":"signature","type_name":sn(*ret.split('.')),"formals":{"<class>":"formals","elements":formals}},"direction":dirn}
def port(n,t,d,inj=False):
    p={"<class>":"port","name":n,"type_name":sn(*t.split('.')),"direction":d,"formals":{"<class>":"formals","elements":[]}}
    if inj: p["injected?"]="injected"
    return p
doc={"<class>":"root","working-directory":"/w","elements":[
 {"<class>":"extern","name":sn("string"),"value":{"<class>":"data","value":"std::string"}},
 {"<class>":"namespace","name":sn("My"),"elements":[
   {"<class>":"enum","name":sn("Result"),"fields":{"<class>":"fields","elements":["Ok","Fail"]}},
   {"<class>":"extern","name":sn("Info"),"value":{"<class>":"data","value":"::My::InfoT"}},
   {"<class>":"interface","name":sn("IApi"),"types":{"<class>":"types","elements":[]},"events":{"<class>":"events","elements":[
      ev("Grab","Result","in",[formal("info","Info","out")]),
      ev("Unclaim","void","in",[formal("bye","string","inout")]),
      ev("Toast","Result","in",[formal("motd","string","in"),formal("info","Info","out")]),
      ev("Cancel","void","in",[]),
      ev("Ok","void","out",[]),
      ev("Fail","void","out",[formal("info","Info","in")]),
   ]}},
   {"<class>":"interface","name":sn("IHw"),"types":{"<class>":"types","elements":[]},"events":{"<class>":"events","elements":[
      ev("On","void","in",[]),
      ev("Get","bool","in",[formal("x","Info","out")]),
      ev("Tripped","void","out",[formal("why","string","in")]),
   ]}},
   {"<class>":"namespace","name":sn("Project"),"elements":[
     {"<class>":"component","name":sn("Toaster"),"ports":{"<class>":"ports","elements":[
        port("api","IApi","provides"), port("hw","My.IHw","requires"), port("hw2","IHw","requires"), port("cfg","IHw","requires",True)]}}
   ]}
 ]}]}
fc = DznJsonAst(json.dumps(doc)).process()
mode=sys.argv[1]
if mode=='mc':
    pc = all_mts(MultiClientPortCfg('api','Grab',ns_ids_t('Ok'),'Unclaim'))
elif mode=='mts': pc = all_mts()
elif mode=='mixed': pc = all_sts_mixed_ts(PortSelect({'hw'}),PortSelect(PortWildcard.REMAINING))
else: pc = all_sts()
cfg = Configuration(dezyne_filename='/x/y/Toaster.dzn', ast_fc=fc, output_basename_suffix='Shell', fqn_encapsulee_name=ns_ids_t('My.Project.Toaster'),
   ports_cfg=pc, facilities_origin=FacilitiesOrigin.CREATE if len(sys.argv)<3 else FacilitiesOrigin.IMPORT, copyright='(c) me\nline2', support_files_ns_prefix=None)
res = Builder().build(cfg)
os.makedirs('out',exist_ok=True)
for f in res.files:
    open('out/'+f.filename,'w').write(f.contents); print(f.filename, len(f.contents))
