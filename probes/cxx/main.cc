#include "ToasterShell.hh"
#include <iostream>
#include <cassert>
int main(){
  dzn::locator loc;
  Dzn::ILog log{ [](auto m){ std::cout<<"I "<<m<<"\n"; }, [](auto m){ std::cout<<"W "<<m<<"\n"; }, [](auto m){ std::cout<<"E "<<m<<"\n"; } };
  My::Project::ToasterShell sh(loc, log, "inst");
  auto a = sh.ProvidesMultiClientApi("A"); auto b = sh.ProvidesMultiClientApi("B");
  static_assert(std::is_same_v<decltype(a), Dzn::Mts<My::IApi>>);
  int okA=0, okB=0;
  a.port.out.Ok=[&]{ ++okA; }; a.port.out.Fail=[&](My::InfoT){};
  b.port.out.Ok=[&]{ ++okB; }; b.port.out.Fail=[&](My::InfoT){};
  auto hw = sh.RequiresHw(); auto hw2 = sh.RequiresHw2();
  hw.port.in.On=[]{}; hw.port.in.Get=[](My::InfoT&){return true;}; hw2.port.in.On=[]{}; hw2.port.in.Get=[](My::InfoT&){return false;};
  try { sh.FinalConstruct(); } catch(std::exception& e){ std::cout<<"FC threw: "<<e.what()<<"\n"; return 1; }
  My::InfoT i; auto r = b.port.in.Grab(i); std::cout<<"grab "<<r<<" v="<<i.v<<"\n";
  // out event raised by component in dispatcher ctx
  auto& pump = sh.Locator().get<dzn::pump>();
  extern My::Project::Toaster* g_last;
  pump([&]{ g_last->api.out.Ok(); }); pump.wait_idle();
  std::cout<<"okA="<<okA<<" okB="<<okB<<"\n";
  std::string s="bye"; b.port.in.Unclaim(s); std::cout<<s<<"\n";
  pump([&]{ g_last->api.out.Ok(); }); pump.wait_idle();
  std::cout<<"okA="<<okA<<" okB="<<okB<<"\n";
  for (auto& id : sh.GetApiClientIdentifiers()) std::cout<<id<<" "; std::cout<<"\n";
  try { sh.ProvidesMultiClientApi("C"); std::cout<<"registered C after FC\n"; } catch(std::exception& e){ std::cout<<"late reg: "<<e.what()<<"\n"; }
}
My::Project::Toaster* g_last=nullptr;
