import sys, json, os
sys.path.insert(0,'/repo/src')
from dznpy.json_ast import DznJsonAst
from dznpy.adv_shell import *
from dznpy.adv_shell.common import FacilitiesOrigin
from dznpy.scoping import ns_ids_t
def sn(*ids): return {"<class>":"scope_name","ids":list(ids)}
doc={"<class>":"root","working-directory":"/w","elements":[
   {"<class>":"interface","name":sn("IHw"),"types":{"<class>":"types","elements":[]},"events":{"<class>":"events","elements":[
      {"<class>":"event","name":"On","signature":{"<class>":"signature","type_name":sn("void"),"formals":{"<class>":"formals","elements":[]}},"direction":"in"}]}},
   {"<class>":"component","name":sn("Stone"),"ports":{"<class>":"ports","elements":[
        {"<class>":"port","name":"api","type_name":sn("IHw"),"direction":"provides","formals":{"<class>":"formals","elements":[]}}]}}]}
fc = DznJsonAst(json.dumps(doc)).process()
cfg = Configuration(dezyne_filename='Stone.dzn', ast_fc=fc, output_basename_suffix='Shell', fqn_encapsulee_name=ns_ids_t('Stone'),
   ports_cfg=all_mts(), facilities_origin=FacilitiesOrigin.CREATE, copyright='c')
for f in Builder().build(cfg).files: open(f.filename,'w').write(('#pragma once\n' if f.filename.endswith('.hh') else '')+f.contents)
