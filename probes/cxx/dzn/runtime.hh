#pragma once
#include <dzn/meta.hh>
#include <dzn/locator.hh>
#include <map>
#include <queue>
#include <tuple>
namespace dzn {
struct runtime { runtime() = default; runtime(const runtime&) = delete; };
}
