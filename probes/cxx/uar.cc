#include <functional>
#include <vector>
#include <cstdio>
std::vector<std::function<void()>> q;
struct T { long v; };
long seen=0;
void post(std::function<void()> f){ q.push_back(f); }
int main(int argc,char**){
  std::function<void(T)> good = [&](T p){ post([&, p]{ seen = p.v; }); };
  std::function<void(T)> bad  = [&](T p){ post([&]{ seen = p.v; }); };
  auto caller = [&](std::function<void(T)>& f){ T t{42}; f(t); };
  caller(argc>1 ? bad : good);
  volatile char scribble[256]; for (auto& c: scribble) c = 0x55;
  for (auto& f : q) f();
  printf("seen=%ld\n", seen); return seen==42?0:3;
}
