#include "ToasterShell.hh"
#include <iostream>
#include <thread>
#include <condition_variable>
My::Project::Toaster* g_last=nullptr;
std::mutex gm; std::condition_variable gcv; bool bSelected=false; bool gate=false;
int main(){
  dzn::locator loc;
  Dzn::ILog log{ [](const std::string& m){
      if (gate && m=="api/Deselect/A") { std::unique_lock<std::mutex> l(gm); gcv.wait(l,[]{return bSelected;}); }   // A stalls between forwarded Release and Deselect
    }, [](auto m){ std::cout<<"W "<<m<<"\n"; }, [](auto m){ std::cout<<"E "<<m<<"\n"; } };
  My::Project::ToasterShell sh(loc, log, "inst");
  auto a = sh.ProvidesMultiClientApi("A"); auto b = sh.ProvidesMultiClientApi("B");
  int okA=0, okB=0;
  a.port.out.Ok=[&]{ ++okA; }; a.port.out.Fail=[&](My::InfoT){};
  b.port.out.Ok=[&]{ ++okB; }; b.port.out.Fail=[&](My::InfoT){};
  auto hw = sh.RequiresHw(); auto hw2 = sh.RequiresHw2();
  hw.port.in.On=[]{}; hw.port.in.Get=[](My::InfoT&){return true;}; hw2.port.in.On=[]{}; hw2.port.in.Get=[](My::InfoT&){return false;};
  sh.FinalConstruct();
  auto& pump = sh.Locator().get<dzn::pump>();
  My::InfoT i; std::cout<<"A claim -> "<<a.port.in.Grab(i)<<"\n";
  gate=true;
  std::thread ta([&]{ std::string s; a.port.in.Unclaim(s); });
  // wait until component released
  for(;;){ bool h; dzn::shell(pump,[&]{ h=g_last->held; return 0;}); if(!h) break; std::this_thread::yield(); }
  std::cout<<"B claim -> "<<b.port.in.Grab(i)<<" (0=Ok)\n";
  { std::lock_guard<std::mutex> l(gm); bSelected=true; } gcv.notify_all();
  ta.join();
  pump([&]{ g_last->api.out.Ok(); }); pump.wait_idle();
  std::cout<<"after B granted & A's late Deselect: okA="<<okA<<" okB="<<okB<<" (expected okB=1)\n";
}
