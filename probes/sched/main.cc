#include "ToasterShell.hh"
#include <iostream>
#include <sstream>
My::Project::Toaster* g_last=nullptr;
using vs::S;
std::vector<std::string> trace; long clk=0;
void T(const std::string& s){ trace.push_back(std::to_string(++clk)+" "+s); }
int main(int argc, char** argv){
  if (argc>1) { std::stringstream ss(argv[1]); int v; while (ss>>v) { S().schedule.push_back(v); if (ss.peek()==',') ss.ignore(); } }
  dzn::locator loc;
  Dzn::ILog log{ [](const std::string& m){ if (vs::self>=0 && (m.find("/Select/")!=std::string::npos || m.find("/Deselect/")!=std::string::npos)) { T("gap "+m); S().yield(vs::self); } }, [](auto m){ T("W "+std::string(m)); }, [](auto m){ T("E "+std::string(m)); } };
  My::Project::ToasterShell sh(loc, log, "inst");
  const char* ids[2]={"A","B"};
  for (auto id: ids) { auto p = sh.ProvidesMultiClientApi(id); std::string n=id; p.port.out.Ok=[n]{ T("deliver Ok "+n); }; p.port.out.Fail=[](My::InfoT){}; }
  auto hw = sh.RequiresHw(); auto hw2 = sh.RequiresHw2();
  hw.port.in.On=[]{}; hw.port.in.Get=[](My::InfoT&){return true;}; hw2.port.in.On=[]{}; hw2.port.in.Get=[](My::InfoT&){return false;};
  sh.FinalConstruct();
  auto& pump = sh.Locator().get<dzn::pump>();
  std::vector<std::thread> th;
  for (int c=0;c<2;++c) { int id = S().add(ids[c]); th.emplace_back([&,id,c]{ vs::self=id; S().start(id); std::string n=ids[c]; auto p = sh.ProvidesMultiClientApi(n);
      My::InfoT i; T("call claim "+n); auto r = p.port.in.Grab(i); T("ret claim "+n+" "+std::to_string(r)); S().yield(id);
      if (r==0) { std::string s; T("call release "+n); p.port.in.Unclaim(s); T("ret release "+n); }
      S().done(id); }); }
  { int id = S().add("env"); th.emplace_back([&,id]{ vs::self=id; S().start(id); for (int k=0;k<2;++k) { S().yield(id); pump([&]{ T(std::string("raise Ok held=")+(g_last->held?"1":"0")); g_last->api.out.Ok(); }); } S().done(id); }); }
  S().run();
  for (auto& t: th) t.join();
  for (auto& s: trace) std::cout<<s<<"\n";
  std::cout<<"choices"; for (auto& c: S().choices) std::cout<<" "<<c; std::cout<<"\n"<<(S().deadlock?"DEADLOCK":"END")<<"\n";
}
