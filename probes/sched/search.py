import subprocess, random, sys, time
def run(sched):
    out = subprocess.run(['./s', ','.join(map(str,sched))], capture_output=True, text=True, timeout=20).stdout.splitlines()
    return out
def oracle(lines):
    ev=[l.split(' ',1) for l in lines if l and l[0].isdigit()]
    holders={}  # client -> state
    viol=[]
    obligated=None
    i=0
    evs=[(int(t),s) for t,s in ev]
    for idx,(t,s) in enumerate(evs):
        if s.startswith('ret claim') and s.endswith(' 0'): obligated=s.split()[2]
        elif s.startswith('call release') and obligated==s.split()[2]: obligated=None
        elif s.startswith('raise'):
            # deliveries until next raise/any? delivered synchronously right after raise in trace
            nxt = evs[idx+1][1] if idx+1<len(evs) else ''
            got = nxt.split()[2] if nxt.startswith('deliver') else None
            if obligated is not None and got!=obligated: viol.append((t,obligated,got))
    return viol
random.seed(1); t0=time.time(); n=0; found=None; seen=set()
while n<6000 and not found:
    sched=[random.randrange(4) for _ in range(40)]
    lines=run(sched); n+=1
    seen.add(tuple(lines[:-2]))
    if lines[-1]!='END': print('non-END', lines[-1]); break
    v=oracle(lines)
    if v: found=(sched,v,lines)
print('runs',n,'distinct traces',len(seen),'time',round(time.time()-t0,1))
if found:
    print('violating schedule', found[0]); print(found[1]); print('\n'.join(found[2][:-2]))
# determinism
if found: assert run(found[0])==found[2]; print('replay deterministic')
