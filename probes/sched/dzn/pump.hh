#pragma once
#include <dzn/meta.hh>
#include "verif_sched.hh"
#include <deque>
#include <thread>
#include <type_traits>
namespace dzn {
struct pump {
  std::deque<std::function<void()>> q; bool stop = false; int id; std::thread worker; int posted = 0, executed = 0;
  static thread_local bool in_dispatcher;
  pump() { id = vs::S().add("pump"); vs::S().actors[id].daemon = true; worker = std::thread([this]{ vs::self = id; vs::S().start(id); run(); }); }
  pump(const pump&) = delete;
  ~pump() { stop = true; // let the worker leave: controller no longer runs, so release it directly
    { std::unique_lock<std::mutex> l(vs::S().m); vs::S().current = id; vs::S().cv.notify_all(); } worker.join(); }
  void run() { for (;;) { vs::S().block(id, [this]{ return stop || !q.empty(); }); if (stop) return; auto f = std::move(q.front()); q.pop_front(); in_dispatcher = true; f(); in_dispatcher = false; ++executed; } }
  void operator()(const std::function<void()>& f) { q.push_back(f); ++posted; if (vs::self >= 0) vs::S().yield(vs::self); }
};
inline thread_local bool pump::in_dispatcher = false;
template <typename L, typename R = decltype(std::declval<L>()()), typename std::enable_if<std::is_void<R>::value,int>::type = 0>
void shell(dzn::pump& p, L&& l) { bool d = false; p([&]{ l(); d = true; }); vs::S().block(vs::self, [&]{ return d; }); }
template <typename L, typename R = decltype(std::declval<L>()()), typename std::enable_if<!std::is_void<R>::value,int>::type = 0>
R shell(dzn::pump& p, L&& l) { bool d = false; R r{}; p([&]{ r = l(); d = true; }); vs::S().block(vs::self, [&]{ return d; }); return r; }
}
