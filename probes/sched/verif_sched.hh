#pragma once
#include <condition_variable>
#include <functional>
#include <mutex>
#include <string>
#include <vector>
#include <cstdio>
#include <cstdlib>
namespace vs {
struct Sched {
  enum St { RUNNABLE, BLOCKED, DONE };
  struct Actor { std::string name; St st = RUNNABLE; std::function<bool()> cond; bool daemon = false; };
  std::mutex m; std::condition_variable cv;
  std::vector<Actor> actors; int current = -1; // -1: controller has the token
  std::vector<int> schedule; size_t pos = 0; bool deadlock = false; long clock = 0;
  std::vector<std::string> choices; // log of "n_runnable:chosen" for DFS
  int add(const std::string& n) { actors.push_back({n}); return (int)actors.size() - 1; }
  // --- called by actor threads
  void start(int me) { std::unique_lock<std::mutex> l(m); cv.wait(l, [&]{ return current == me; }); }
  void yield(int me) { std::unique_lock<std::mutex> l(m); current = -1; cv.notify_all(); cv.wait(l, [&]{ return current == me; }); }
  void block(int me, std::function<bool()> c) { std::unique_lock<std::mutex> l(m); if (c()) { /* still a scheduling point */ }
      actors[me].st = BLOCKED; actors[me].cond = c; current = -1; cv.notify_all(); cv.wait(l, [&]{ return current == me; }); }
  void done(int me) { std::unique_lock<std::mutex> l(m); actors[me].st = DONE; current = -1; cv.notify_all(); }
  // --- controller
  void run() {
    std::unique_lock<std::mutex> l(m);
    for (;;) {
      cv.wait(l, [&]{ return current == -1; });
      std::vector<int> r; bool alldone = true;
      for (size_t i = 0; i < actors.size(); ++i) { auto& a = actors[i];
        if (a.st == BLOCKED && a.cond()) { a.st = RUNNABLE; a.cond = nullptr; }
        if (a.st != DONE && !(a.daemon && true)) alldone = alldone && false;
        if (a.st == RUNNABLE) r.push_back((int)i); }
      bool userdone = true; for (auto& a : actors) if (!a.daemon && a.st != DONE) userdone = false;
      if (userdone) return;
      if (r.empty()) { deadlock = true; return; }
      int k = pos < schedule.size() ? schedule[pos] % (int)r.size() : 0; ++pos;
      choices.push_back(std::to_string(r.size()) + ":" + std::to_string(k));
      current = r[k]; cv.notify_all();
    }
  }
};
inline Sched& S() { static Sched s; return s; }
inline thread_local int self = -1;
}
