import sys; sys.path.insert(0,'/repo/src')
from hypothesis import given, settings, strategies as st, seed
from dznpy.text_gen import TextBlock, chunk, cond_chunk, Indentizer, Indentor, BulletList, BulletListMode
from dznpy.cpp_gen import Comment
BREAKS = ['\n','\r','\x0b','\x0c','\x1c','\x1d','\x1e','\x85',' ',' ']
def split_ref(s):
    out=[]; cur=''; i=0
    while i < len(s):
        c=s[i]
        if c=='\r' and i+1<len(s) and s[i+1]=='\n': out.append(cur); cur=''; i+=2; continue
        if c in BREAKS: out.append(cur); cur=''; i+=1; continue
        cur+=c; i+=1
    if cur!='' : out.append(cur)
    return out
class TBSpec:  # marker for nested textblock
    def __init__(self, content): self.content=content
def ref_lines(v):
    if v is None: return []
    if isinstance(v, TBSpec): return ref_lines(v.content)
    if isinstance(v, list): return [l for x in v for l in ref_lines(x)]
    if isinstance(v, dict): return [l for x in v.values() for l in ref_lines(x)]
    if isinstance(v, str): return [''] if v=='' else split_ref(v)
    s=str(v); return split_ref(s) if s else []
def real(v):
    if isinstance(v, TBSpec): return TextBlock(real(v.content))
    if isinstance(v, list): return [real(x) for x in v]
    if isinstance(v, dict): return {k:real(x) for k,x in v.items()}
    return v
alpha = st.sampled_from(list('ab \t')+BREAKS)
text = st.text(alphabet=alpha, max_size=6)
leaf = st.one_of(st.none(), text, st.integers(-3,3), st.floats(allow_nan=True), st.booleans())
content = st.recursive(leaf, lambda c: st.one_of(st.lists(c,max_size=4), st.dictionaries(st.text(max_size=2), c, max_size=3), c.map(TBSpec)), max_leaves=12)
@seed(1)
@settings(max_examples=3000, deadline=None, database=None)
@given(content)
def t(c):
    tb = TextBlock(real(c))
    exp = ref_lines(c)
    assert tb.lines == exp, (tb.lines, exp)
    assert all(not any(b in l for b in BREAKS) for l in tb.lines)
    assert str(tb) == ''.join(l+'\n' for l in exp)
    if exp: assert TextBlock(str(tb)).lines == exp
t()
print('C17 core ok')
