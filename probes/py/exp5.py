import sys, itertools, collections; sys.path.insert(0,'/repo/src')
from dznpy.adv_shell.port_selection import *
from dznpy.adv_shell.types import *
W={'ALL':PortWildcard.ALL,'REM':PortWildcard.REMAINING,'NONE':PortWildcard.NONE}
names=['a','b','c']; unk='zz'
def subsets(xs): 
    for r in range(1,len(xs)+1):
        for c in itertools.combinations(xs,r): yield frozenset(c)
sels = list(W)+list(subsets(names+[unk]))
def mk(s): return PortSelect(W[s]) if isinstance(s,str) else PortSelect(set(s))
def ref_side(sts, mts, exposed, declared):
    """return (verdict, assignment) verdict in ACCEPT/REJECT/EITHER"""
    S = sts if not isinstance(sts,str) else frozenset(); M = mts if not isinstance(mts,str) else frozenset()
    if (S|M) - declared: return 'REJECT', None           # unknown name
    if S & M: return 'REJECT', None                      # both semantics
    if sts=='ALL' and mts!='NONE': return 'REJECT', None
    if mts=='ALL' and sts!='NONE': return 'REJECT', None
    asg={}
    for p in exposed:
        if p in S: asg[p]='STS'
        elif p in M: asg[p]='MTS'
        else:
            cov=[x for x,w in (('STS',sts),('MTS',mts)) if w in ('ALL','REM')]
            if len(cov)==1: asg[p]=cov[0]
            elif len(cov)==0: return 'REJECT', None      # unassigned
            else: return 'REJECT', None                  # two wildcards cover
    # corners
    if sts==mts: return 'EITHER', asg   # equal wildcards with nothing to cover (e.g. NONE,NONE / REM,REM, no ports)
    if (S|M) - exposed: return 'EITHER', asg  # names an injected (declared, not exposed) port
    return 'ACCEPT', asg
stat=collections.Counter(); bad=[]
for k in range(0,4):
  for exposed in map(frozenset, itertools.combinations(names,k)):
    declared = exposed
    for sts in sels:
      for mts in sels:
        v, asg = ref_side(sts,mts,exposed,declared)
        try:
            cfg = PortsSemanticsCfg(mk(sts), mk(mts)); got = cfg.match(set(declared),'x'); 
            got = {p:('STS' if s==RuntimeSemantics.STS else 'MTS') for p,s in got.items() if p in exposed}
            missing = exposed - set(got)
            out = ('OK', got) if not missing else ('OK-MISSING', got)
        except AdvShellError as e: out=('ERR', None)
        except Exception as e: out=('EXC:'+type(e).__name__, None)
        stat[(v,out[0])]+=1
        if v=='ACCEPT' and (out[0]!='OK' or out[1]!=asg): bad.append((sorted(exposed),sts,mts,v,out))
        if v=='REJECT' and out[0]!='ERR': bad.append((sorted(exposed),sts,mts,v,out))
for k,v in sorted(stat.items()): print(k,v)
print(len(bad)); 
for b in bad[:12]: print(b)
