import sys; sys.path.insert(0,'/repo/src')
import dznpy; print(dznpy.__file__)
from dznpy.text_gen import *
try:
    print(repr(Indentizer().to_str(['a','b'])))
except RecursionError as e: print('to_str RecursionError')
from dznpy.json_ast import DznJsonAst
import json
doc = {"<class>":"root","elements":[{"<class>":"import","name":"x.dzn"},
 {"<class>":"namespace","name":{"<class>":"scope_name","ids":["A","B"]},"elements":[
   {"<class>":"extern","name":{"<class>":"scope_name","ids":["T"]},"value":{"<class>":"data","value":"int"}}]}],"working-directory":"/w"}
p = DznJsonAst(json.dumps(doc))
r1 = p.process(); n1=len(r1.externs)
r2 = p.process(); print('process twice externs', n1, len(r2.externs), r1 is r2, r2.externs[0].fqn)
from dznpy.adv_shell.port_selection import *
c = PortsSemanticsCfg(sts=PortSelect({'alpha','beta','gamma'}), mts=PortSelect(PortWildcard.REMAINING))
print(str(c))
