import sys; sys.path.insert(0,'/repo/src')
from hypothesis import given, settings, strategies as st, seed
from dznpy.text_gen import TextBlock, Indentizer, Indentor, BulletList, BulletListMode
from dznpy.cpp_gen import Comment
line = st.text(alphabet=st.sampled_from(list('ab \t/-')), max_size=6)
lines = st.lists(line, max_size=6)
glyph = st.text(alphabet=st.sampled_from(list('-*/>#ab')), min_size=1, max_size=6)
cfg = st.tuples(st.sampled_from([Indentor.SPACES, Indentor.TAB]), st.integers(0,8), st.one_of(st.none(), st.tuples(st.sampled_from(list(BulletListMode)), glyph)))
def mk(c):
    ind, n, b = c
    return Indentizer(indentor=ind, spaces_count=n, bullet_list=None if b is None else BulletList(mode=b[0], glyph=b[1]))
def spec(c, ls):
    ind, n, b = c
    if b is None:
        ws = ' '*n if ind is Indentor.SPACES else '\t'
        return [ (ws+l) if l.strip() else '' for l in ls]
    mode, g = b
    if ind is Indentor.SPACES:
        bullet = (g+' ').ljust(n); ws = ' '*len(bullet)
    else:
        bullet = g+'\t'; ws='\t'
    out=[]
    for i,l in enumerate(ls):
        if mode is BulletListMode.ALL or i==0: out.append((bullet+l))
        else: out.append((ws+l) if l.strip() else '')
    return out
@seed(1)
@settings(max_examples=5000, deadline=None, database=None)
@given(cfg, lines)
def t(c, ls):
    got = mk(c).to_list(ls)
    exp = spec(c, ls)
    assert len(got)==len(exp)
    for g,e,l in zip(got,exp,ls):
        assert g.rstrip()==e.rstrip(), (c, ls, got, exp)
        assert len(g)-len(g.rstrip()) <= len(l)-len(l.rstrip()), ('trailing', c, ls, got)
t(); print('C18 to_list ok')
@seed(1)
@settings(max_examples=3000, deadline=None, database=None)
@given(st.text(alphabet=st.sampled_from(list('ab \t/\\')+['\n','\r','\x0c','\x85',' ']), max_size=12))
def t2(s):
    c = Comment(s); before=list(c.lines)
    out = str(c); assert str(c)==out and c.lines==before
    ol = out.split('\n')[:-1] if out else []
    assert len(ol)==len(before)
    for o,l in zip(ol,before):
        assert o.startswith('//'); assert o.rstrip()==('// '+l).rstrip(), (s,o,l)
t2(); print('C19 comment ok')
