import sys; sys.path.insert(0,'/repo/src')
from dznpy.cpp_gen import *
from dznpy.text_gen import TB
c = Class('K', TB(['int x;']))
print(str(c))
f = Function(TypeDesc(fqn_t('std.string'), postfix=TypePostfix.REFERENCE, const=True), 'Get', params=[param_t(fqn_t('int'),'a','3'), const_param_ref_t(fqn_t('My.T'),'b')], prefix=FunctionPrefix.VIRTUAL, cav='const', override=True, contents='return s;', scope=c)
print(f.as_decl, f.as_def)
ct = Constructor(c, explicit=True, params=[param_t(fqn_t('int'),'a','3')], member_initlist=['x(a)','y{1}'], contents='go();')
print(ct.as_decl, ct.as_def)
print(str(Namespace(ns_ids_t([]), TB('int y;'))), str(Namespace(ns_ids_t('A.B'))))
print(repr(Function(TypeDesc(fqn_t('')), 'f').as_decl))
d = Destructor(c, override=True, initialization='default'); print(d.as_decl, repr(d.as_def))
