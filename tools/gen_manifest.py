#!/usr/bin/env python3
"""Writes /verif/MANIFEST.json from the table below (single source of truth for the manifest)."""
import json
import os

HERE = os.path.dirname(os.path.dirname(os.path.abspath(__file__)))

PBT = 'property-based testing (Hypothesis, seeded by VERIF_SEED) against '
TRUST_PY = ('/venv/bin/python + Hypothesis; code under test imported from /repo/src (asserted); '
            'reference semantics in vf/model.py written from the property text')
TRUST_CXX = (TRUST_PY + '; mock Dezyne runtime (mockrt/dzn) and mock of the dzn-generated model '
             'header (vf/cxx/model_header.py); g++ 12 / clang 14 and their sanitizers')

CHECKS = {
    'C01': dict(
        technique='generated-input search (Hypothesis models x configurations) executed on the compiled shell: trace oracle of a driver that calls every (port, event) pair in all four roles against an instrumented mock component',
        text='The generated C++ is compiled and run; every event is sent with unique argument values and scripted '
             'replies/out-values and the recorded trace must show exactly one arrival at the same-named event on the other '
             'side with equal arguments and the reply/out values back at the caller; coverage of all pairs is checked.',
        note=TRUST_CXX, design='C01'),
    'C02': dict(
        technique='generated-input search executed on the compiled shell under ASan/UBSan with a harness-owned pausable dispatcher: ordering / thread-context / queue-counter oracle per event, static_assert on accessor types',
        text='Per event of every exposed port the run-time behaviour is observed: blocking through the dispatcher for MTS '
             'provides events, queued by-value delivery for MTS requires events (stack-use-after-return detection), caller '
             'thread and object identity for STS ports.',
        note=TRUST_CXX, design='C02'),
    'C03': dict(
        technique='bounded-exhaustive enumeration (<= 3 ports per side, every selection) through construction -> match -> Builder.build, plus ' + PBT + 'a three-valued reference of the configuration semantics',
        text='The finite domain named in the property (3 names per side, all wildcards and name sets incl. an unknown '
             'name) is enumerated completely per side and pushed through the real builder; thorough enumerates the '
             'product of both sides; beyond the bound Hypothesis samples generated models with up to 6 ports. Accessor '
             'types are read back from the generated header. Two of three builds are performed by one long-lived '
             'Builder on shared parsed contents (a failure is written out with its history).',
        note=TRUST_PY, design='C03'),
    'C04': dict(
        technique='model-based generation of claim/release/other/out-event histories (Hypothesis, sequences as data, delta-debugged) run against the compiled multi-client shell with a reference claim model as oracle',
        text='Per generated multi-client model the shell is compiled once and hundreds of histories over 1-4 clients with '
             'honest and arbitrary arbiter replies are executed; every out-event must reach exactly the client the '
             'reference model says holds the claim and every in-event must pass the dispatcher once with reply returned.',
        note=TRUST_CXX, design='C04'),
    'C05': dict(
        technique=PBT + 'an independent reference model of the file contents (round trip model -> JSON -> parser -> view)',
        text='Generated-input search: random well-formed Dezyne JSON ASTs are parsed by the code under test and the '
             'complete parsed contents (every container, every field, order) are compared with a reference derived from '
             'the generating model; exploration, not proof - strength is the number and diversity of documents.',
        note=TRUST_PY, design='C05'),
    'C06': dict(
        technique='generated-input search (Hypothesis: model x configuration x inclusion order) with the C++ compiler and linker as oracle (g++ 12, clang++ 14, mock Dezyne runtime)',
        text='Every generated file set is compiled: each header stand-alone with two compilers, a multi-inclusion / '
             'diamond translation unit, quoted-include closure, a separate translation unit that constructs, binds, '
             'final-constructs and touches every public member of the shell, linked and run, and a cross-prefix program '
             'with two shells; exploration over sampled models and configurations.',
        note=TRUST_CXX, design='C06'),
    'C07': dict(
        technique=PBT + 'an independent reference lookup (scope chain uniqueness) whose result is compared with the types extracted from the generated text; metamorphic relation (unrelated same-named declarations); reference faults must be refused',
        text='Generated-input search over collision-heavy models and every spelling of a reference; the declaration the '
             'shell uses is read back from accessor types, lambda parameter types and the granting-reply comparison and '
             'must be the unique one on the scope chain; exploration.',
        note=TRUST_PY, design='C07'),
    'C08': dict(
        technique='differential testing across child interpreters (PYTHONHASHSEED x set construction order x warm/fresh process x shared Builder x user noise x working directory x -O/-OO/C locale/secondary thread) over Hypothesis-generated (model, configuration) pairs',
        text='Every generated pair is built under 8 (quick) / 32 (thorough) hash-seed x order variants in separate '
             'processes, plus one variant each for a reused Builder, a build after unrelated use of the public '
             'helpers, another working directory with a symlinked file name, interpreters started with -O / -OO / an '
             'ASCII locale and a build from a secondary thread; all must agree byte for byte (sha256) and every reported hash must be the md5 of the contents; '
             'exploration.',
        note=TRUST_PY, design='C08'),
    'C09': dict(
        technique='generated-input search (models x configurations x origin) on the compiled shell with exhaustive enumeration of the 16 locator contents; object-identity / service-map oracle, ASan, detection idiom for Locator()',
        text='For every compiled shell all 16 presence/absence combinations of dispatcher, runtime and two other services in '
             'the user locator are run (two shell instances each); constructor outcome, locator identity and contents seen '
             'by the mock component, dispatcher identity and the unmodified prototype are compared with the statement.',
        note=TRUST_CXX, design='C09'),
    'C10': dict(
        technique='single-omission fault enumeration on the compiled shell over Hypothesis-generated models and configurations',
        level='fault_enumeration',
        text='Per compiled model every single unbound event (user side, per registered client, component side) is tried in '
             'its own run; final construction must throw dzn::binding_error, and must succeed and record the parent when '
             'nothing is omitted; a second final construction with the event still unbound must fail again, one after '
             'binding it must succeed; an inner port of the mock component stands for ports the shell does not '
             'expose; late client registration must be refused.',
        note=TRUST_CXX, design='C10'),
    'C11': dict(
        technique='generated thread schedules: harness-owned deterministic scheduler (bounded-exhaustive stateless DFS over <= 3 deviations + Hypothesis-sampled programs x dense / sparse / seeded pseudo-random-walk schedules) with a trace oracle, plus free-running perturbation fuzzing under ThreadSanitizer; MutexWrapped op-list fuzzing under TSan',
        text='Interleavings of 2-3 client threads, the dispatcher and an out-event raising environment are the generated '
             'input: all schedules up to a deviation bound are enumerated for the smallest program, larger programs are '
             'sampled; the claim-holder oracle is evaluated on the totally ordered trace, deadlocks are structural; '
             'ThreadSanitizer decides data races / lock misuse on free runs. A third of the sampled schedules run with '
             'lock-granularity scheduling points (interposed pthread_mutex_lock). Bounded: <= 3 clients, <= 3 cycles.',
        note=TRUST_CXX + '; harness-owned scheduler mockrt/verif_sched.hh; clang 14 ThreadSanitizer', design='C11'),
    'C12': dict(
        technique='model-based generation of build histories (operation sequences) with snapshot invariants and a differential against a fresh interpreter per build; failing histories delta-debugged',
        text='Sequences of builds over shared parsed models with valid and invalid configurations and kept/fresh builders; '
             'after every step the inputs must be structurally unchanged and the outcome must equal the first build of a '
             'fresh process; exploration.',
        note=TRUST_PY, design='C12'),
    'C13': dict(
        technique='single-fault enumeration over Hypothesis-generated valid (model, configuration) pairs with a result-completeness / error-class oracle and a watchdog',
        level='fault_enumeration',
        text='For every generated valid pair the build must return the complete file set; then each of 31 fault kinds '
             '(encapsulee, port type, formal type, selection, multi-client) is injected one at a time and the build must '
             'fail with an exception class defined in the dznpy package; fault enumeration over sampled bases.',
        note=TRUST_PY + '; SIGALRM watchdog of 30 s per build', design='C13'),
    'C14': dict(
        technique='bounded-exhaustive enumeration (3-identifier alphabet, depth 3) plus ' + PBT + 'a set-comprehension specification of lookup / resolution order / suffix search and an own identifier scanner',
        text='The finite sub-domain named in the property (alphabet of 3, depth 3, every name x scope x single/pair/full '
             'declaration set) is enumerated completely; beyond it Hypothesis samples parser-built contents, contents that '
             'grow and shrink between look-ups, and arbitrary identifier candidates; exploration with an exhaustive core.',
        note=TRUST_PY, design='C14'),
    'C15': dict(
        technique=PBT + 'a crash/exception-class oracle over structurally mutated well-formed documents (and an injected-invalid-out-event clause); optional atheris campaign in thorough',
        text='Generated-input search: documents obtained from well-formed ASTs by 1-4 deletions/retypings/retaggings at '
             'arbitrary depth, plus documents nested as deeply as the JSON decoder accepts (1-512 namespaces) and a '
             'second process() on the same instance; any exception other than the two documented classes is a '
             'violation; exploration.',
        note=TRUST_PY + '; orjson as the JSON decoder', design='C15'),
    'C16': dict(
        technique='model-based generation of call histories (operation sequences interpreted against the real parser and a reference model), Hypothesis-driven and shrunk as one value',
        text='Histories of parser constructions, loads and process() calls over several live instances and well-formed '
             'and malformed documents; every result is compared with the reference contents of its document and all '
             'earlier results are re-read after every step; exploration.',
        note=TRUST_PY, design='C16'),
    'C17': dict(
        technique=PBT + 'an independent reference flattener/line splitter and the algebraic laws of the statement',
        text='Generated-input search over nested content (all accepted types, every Python line boundary); each law of '
             'the statement (flattening, no break inside a line, string form, round trip, append/+/+= as concatenation, '
             'trim, chunk, cond_chunk) is an executable oracle; exploration.',
        note=TRUST_PY, design='C17'),
    'C18': dict(
        technique=PBT + 'a direct per-line prefix specification of the indenter; list form vs string form differential',
        text='Generated-input search over line lists x indenter configurations x repetition, compared line by line with '
             'a specification of the prefix; histories with several live indenters (constructor, prefab creators, '
             'overridden module default, in-place reconfiguration); exploration.',
        note=TRUST_PY, design='C18'),
    'C19': dict(
        technique=PBT + 'the C17 reference flattener ("one // line per physical line") and a metamorphic relation over builds (vary only copyright/creator_info)',
        text='Generated-input search over hostile comment text; rendering is checked line by line against a reference, '
             'for idempotence and for non-mutation; exploration.',
        note=TRUST_PY, design='C19'),
    'C20': dict(
        technique=PBT + 'an independent signature tokenizer (declaration vs definition vs description) plus g++ -fsyntax-only as oracle on generated compositions',
        text='Generated-input search over all field combinations of Function/Constructor/Destructor and the container '
             'blocks; declaration and definition are parsed back and compared; random semantically valid compositions '
             'are compiled; exploration.',
        note=TRUST_PY + '; g++ 12 -std=c++17', design='C20'),
}

NOT_YET = {
}


def main():
    props = [json.loads(line) for line in open(os.path.join(HERE, 'properties.jsonl'), encoding='utf-8')]
    checks, na = [], []
    for p in props:
        pid = p['id']
        if pid in CHECKS:
            c = CHECKS[pid]
            checks.append({
                'property_id': pid,
                'quick_cmd': f'./check {pid} --tier quick',
                'thorough_cmd': f'./check {pid} --tier thorough',
                'evidence_file': f'evidence/{pid}.json',
                'replay_cmd_template': f'./check {pid} --replay {{path}}',
                'engine': 'vf',
                'level_claimed': {'category': c.get('level', 'exploration'), 'text': c['text'],
                                  'design_ref': f'DESIGN.md section 2, {c["design"]}'},
                'level_note': c['note'],
                'technique': c['technique'],
            })
        else:
            na.append({'property_id': pid,
                       'reason': NOT_YET.get(pid, 'check not built yet in this round (planned, see DESIGN.md section 2)')})
    manifest = {
        'version': 1,
        'setup_cmd': './setup.sh',
        'hooks': {'guard': 'DZNPY_VERIF', 'enable': 'no hooks: every observation goes through public API, generated '
                  'text or the compiled output', 'baseline_off_cmd':
                  'cd /repo && /venv/bin/python -m pytest -ra -q -p no:cacheprovider --timeout=900 '
                  '--continue-on-collection-errors', 'source_commits': [], 'add_only': True},
        'engines': [{'name': 'vf', 'path': 'vf/', 'serves_properties': sorted(CHECKS),
                     'kind_free_text': 'Hypothesis-driven property-based testing / bounded enumeration with explicit '
                                       'reference oracles; C++ farm (mock Dezyne runtime, g++/clang sanitizers) for '
                                       'properties about the compiled shell'}],
        'checks': checks,
        'not_applicable': na,
        'notes': 'All checks: ./check <id> [--tier quick|thorough] [--replay <file>]; VERIF_SEED selects the seed. '
                 'Exit 0 held / 1 violation / 2 harness error. Known findings: known_findings.txt.',
    }
    with open(os.path.join(HERE, 'MANIFEST.json'), 'w', encoding='utf-8') as fh:
        json.dump(manifest, fh, indent=1)
        fh.write('\n')
    print(f'{len(checks)} checks, {len(na)} not claimed')


if __name__ == '__main__':
    main()
