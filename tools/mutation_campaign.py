#!/venv/bin/python
"""
Systematic sensitivity measurement: generate first-order mutants of /repo/src/dznpy (AST-located
operator / constant / condition mutations), run the checks relevant to the mutated file against a
scratch copy (VERIF_REPO) and record which check kills which mutant.

    tools/mutation_campaign.py [--per-file N] [--seed S] [--files a.py,b.py] [--out file.jsonl]

Nothing is written to /repo.  Survivors need triage by hand (equivalent mutant or a gap).
"""
import argparse
import ast
import json
import os
import random
import shutil
import subprocess
import sys
import tempfile

REPO_SRC = '/repo/src'
VERIF = os.path.dirname(os.path.dirname(os.path.abspath(__file__)))

RELEVANT = {
    'dznpy/text_gen.py': ['C17', 'C18', 'C19'],
    'dznpy/misc_utils.py': ['C17', 'C18', 'C19', 'C20'],
    'dznpy/cpp_gen.py': ['C20', 'C19', 'C06'],
    'dznpy/json_ast.py': ['C05', 'C15', 'C16'],
    'dznpy/ast.py': ['C05', 'C16'],
    'dznpy/scoping.py': ['C14', 'C05', 'C07'],
    'dznpy/ast_view.py': ['C14', 'C07', 'C13'],
    'dznpy/adv_shell/port_selection.py': ['C03', 'C13', 'C08', 'C02'],
    'dznpy/adv_shell/common.py': ['C06', 'C13', 'C01', 'C12'],
    'dznpy/adv_shell/__init__.py': ['C13', 'C06', 'C08', 'C12', 'C19', 'C03'],
    'dznpy/adv_shell/core/processing.py': ['C13', 'C07', 'C03', 'C01', 'C02', 'C10', 'C09', 'C04', 'C06'],
    'dznpy/support_files/__init__.py': ['C06', 'C12', 'C19'],
    'dznpy/support_files/multi_client_selector.py': ['C06', 'C04', 'C10', 'C11'],
    'dznpy/support_files/mutex_wrapped.py': ['C06', 'C11'],
    'dznpy/support_files/ilog.py': ['C06', 'C04'],
    'dznpy/support_files/strict_port.py': ['C06'],
    'dznpy/support_files/meta_helpers.py': ['C06', 'C04'],
    'dznpy/support_files/misc_utils.py': ['C06'],
}

CMP = {ast.Eq: '!=', ast.NotEq: '==', ast.Lt: '<=', ast.LtE: '<', ast.Gt: '>=', ast.GtE: '>',
       ast.In: 'not in', ast.NotIn: 'in', ast.Is: 'is not', ast.IsNot: 'is'}
CMP_SRC = {ast.Eq: '==', ast.NotEq: '!=', ast.Lt: '<', ast.LtE: '<=', ast.Gt: '>', ast.GtE: '>=',
           ast.In: 'in', ast.NotIn: 'not in', ast.Is: 'is', ast.IsNot: 'is not'}


def offsets(src):
    lines = src.split('\n')
    starts = [0]
    for line in lines:
        starts.append(starts[-1] + len(line.encode()) + 1)
    return starts


def span(node, starts, raw):
    a = starts[node.lineno - 1] + node.col_offset
    b = starts[node.end_lineno - 1] + node.end_col_offset
    return a, b, raw[a:b].decode()


def mutants_of(path):
    src = open(path, encoding='utf-8').read()
    raw = src.encode()
    tree = ast.parse(src)
    starts = offsets(src)
    out = []

    def add(a, b, new, kind, line):
        out.append({'a': a, 'b': b, 'new': new, 'kind': kind, 'line': line,
                    'old': raw[a:b].decode()})
    docstrings = set()
    in_fstring = set()
    for node in ast.walk(tree):
        if isinstance(node, ast.JoinedStr):
            for v in node.values:
                if isinstance(v, ast.Constant):
                    in_fstring.add(id(v))
    for node in ast.walk(tree):
        if isinstance(node, (ast.FunctionDef, ast.ClassDef, ast.Module)):
            b0 = node.body[0] if node.body else None
            if isinstance(b0, ast.Expr) and isinstance(getattr(b0, 'value', None), ast.Constant) and \
                    isinstance(b0.value.value, str):
                docstrings.add(id(b0.value))
    for node in ast.walk(tree):
        if isinstance(node, ast.Compare) and len(node.ops) == 1 and type(node.ops[0]) in CMP:
            l_a, l_b, _ = span(node.left, starts, raw)
            r_a, _r_b, _ = span(node.comparators[0], starts, raw)
            mid = raw[l_b:r_a].decode()
            op = CMP_SRC[type(node.ops[0])]
            if op in mid:
                add(l_b, r_a, mid.replace(op, CMP[type(node.ops[0])], 1), 'cmp', node.lineno)
        elif isinstance(node, ast.BoolOp) and len(node.values) == 2:
            a_a, a_b, _ = span(node.values[0], starts, raw)
            b_a, _b_b, _ = span(node.values[1], starts, raw)
            mid = raw[a_b:b_a].decode()
            if isinstance(node.op, ast.And) and ' and ' in mid:
                add(a_b, b_a, mid.replace(' and ', ' or ', 1), 'boolop', node.lineno)
            elif isinstance(node.op, ast.Or) and ' or ' in mid:
                add(a_b, b_a, mid.replace(' or ', ' and ', 1), 'boolop', node.lineno)
        elif isinstance(node, (ast.If, ast.IfExp, ast.While)):
            a, b, txt = span(node.test, starts, raw)
            add(a, b, f'(not ({txt}))', 'negate', node.lineno)
        elif isinstance(node, ast.Constant) and id(node) in in_fstring and isinstance(node.value, str):
            # literal text of an f-string that composes generated C++
            a, b, txt = span(node, starts, raw)
            for needle, repl, kind in (('&', '', 'gen-drop-ref'), ('.in.', '.out.', 'gen-in-out'),
                                       ('.out.', '.in.', 'gen-out-in'), ('std::ref(', '(', 'gen-drop-stdref'),
                                       ('return ', '', 'gen-drop-return'), ('==', '!=', 'gen-eq'),
                                       ('this', 'this ', 'gen-noop')):
                if needle in txt and kind != 'gen-noop':
                    add(a, b, txt.replace(needle, repl, 1), kind, node.lineno)
                    break
        elif isinstance(node, ast.Constant) and id(node) not in docstrings and isinstance(node.value, str) \
                and '\n' in node.value and ('struct ' in node.value or 'template' in node.value):
            # a C++ template of a support header: comment out one statement line / negate one if
            a, b, txt = span(node, starts, raw)
            pos = 0
            for line in txt.split('\n'):
                stripped = line.strip()
                la = a + len(txt[:pos].encode())
                lb = la + len(line.encode())
                if stripped.endswith(';') and '{' not in stripped and not stripped.startswith(('//', '#', 'using', 'return', 'std::function', 'const ', 'DZN_PORT ', 'bool ', 'std::map', 'MutexWrapped', 'T ', 'std::mutex', 'std::unique_lock<', 'ClientIdentifier', 'P&')):
                    add(la, lb, line.replace(stripped, '/* ' + stripped + ' */'), 'cpp-drop-stmt', node.lineno)
                if stripped.startswith('if (') and ')' in stripped:
                    cond_end = stripped.rfind(')') if stripped.endswith(')') else stripped.find(') ')
                    if cond_end > 4:
                        new = 'if (!(' + stripped[4:cond_end] + '))' + stripped[cond_end + 1:]
                        add(la, lb, line.replace(stripped, new), 'cpp-negate-if', node.lineno)
                pos += len(line) + 1
        elif isinstance(node, ast.Constant) and id(node) not in docstrings:
            a, b, txt = span(node, starts, raw)
            if isinstance(node.value, bool):
                add(a, b, 'False' if node.value else 'True', 'const-bool', node.lineno)
            elif isinstance(node.value, int) and 0 <= node.value < 50:
                add(a, b, str(node.value + 1), 'const-int', node.lineno)
            elif isinstance(node.value, str) and txt[:1] in '\'"' and not txt.startswith(('"""', "'''")):
                v = node.value
                for needle, repl, kind in (('&', '', 'str-drop-ref'), ('.in.', '.out.', 'str-in-out'),
                                           ('std::ref(', '(', 'str-drop-stdref'), ('::', ':', 'str-colon')):
                    if needle in v and len(v) < 160 and '\n' not in txt:
                        add(a, b, txt.replace(needle, repl, 1), kind, node.lineno)
                        break
        elif isinstance(node, ast.Subscript) and isinstance(node.slice, ast.Slice):
            sl = node.slice
            for part in (sl.lower, sl.upper):
                if isinstance(part, ast.Constant) and isinstance(part.value, int):
                    a, b, txt = span(part, starts, raw)
                    add(a, b, str(part.value + 1), 'slice', node.lineno)
        elif isinstance(node, ast.Return) and node.value is not None and \
                isinstance(node.value, (ast.Name, ast.Attribute, ast.Call)) and False:
            pass
        elif isinstance(node, ast.Expr) and isinstance(node.value, ast.Call):
            # drop a call statement (e.g. a check or an append)
            a, b, txt = span(node, starts, raw)
            if '\n' not in txt and len(txt) < 120:
                add(a, b, 'pass', 'drop-call', node.lineno)
        elif isinstance(node, ast.Raise) and node.exc is not None:
            a, b, txt = span(node, starts, raw)
            if len(txt) < 200:
                add(a, b, 'pass', 'drop-raise', node.lineno)
    return raw, out


def apply(raw, m):
    return raw[:m['a']] + m['new'].encode() + raw[m['b']:]


def run_checks(scratch, checks, timeout):
    killed_by, results = None, {}
    for c in checks:
        env = dict(os.environ, VERIF_REPO=scratch, VERIF_FAST_FAIL='1')
        try:
            r = subprocess.run([os.path.join(VERIF, 'check'), c, '--no-evidence'], cwd=VERIF, env=env,
                               capture_output=True, text=True, timeout=timeout, check=False)
            rc = r.returncode
            sig = [l for l in r.stdout.splitlines() if l.startswith('--- ')][:1]
        except subprocess.TimeoutExpired:
            rc, sig = 'timeout', []
        results[c] = rc
        if rc not in (0,):
            killed_by = c
            results['sig'] = sig[0][:200] if sig else ''
            break
    return killed_by, results


def main():
    ap = argparse.ArgumentParser()
    ap.add_argument('--per-file', type=int, default=8)
    ap.add_argument('--seed', type=int, default=1)
    ap.add_argument('--files', default='')
    ap.add_argument('--out', default='/tmp/mutation_campaign.jsonl')
    ap.add_argument('--timeout', type=int, default=1500)
    ap.add_argument('--jobs', type=int, default=1)
    ap.add_argument('--skip', type=int, default=0, help='skip the first N mutants per file (earlier rounds)')
    args = ap.parse_args()
    rng = random.Random(args.seed)
    files = [f for f in RELEVANT if not args.files or f in args.files.split(',')]
    import threading
    from concurrent.futures import ThreadPoolExecutor
    lock = threading.Lock()
    todo = []
    for rel in files:
        raw, ms = mutants_of(os.path.join(REPO_SRC, rel))
        rng.shuffle(ms)
        todo += [(rel, raw, m) for m in ms[args.skip:args.skip + args.per_file]]
    with open(args.out, 'a', encoding='utf-8') as log:
        def one(item):
            rel, raw, m = item
            if True:
                scratch = tempfile.mkdtemp(prefix='vf_mc_')
                try:
                    shutil.copytree(os.path.join(REPO_SRC, 'dznpy'), os.path.join(scratch, 'src', 'dznpy'),
                                    ignore=shutil.ignore_patterns('__pycache__'))
                    with open(os.path.join(scratch, 'src', rel), 'wb') as fh:
                        fh.write(apply(raw, m))
                    imp = subprocess.run(['/venv/bin/python', '-c',
                                          'import dznpy.adv_shell, dznpy.json_ast, dznpy.cpp_gen, '
                                          'dznpy.support_files.multi_client_selector'],
                                         env=dict(os.environ, PYTHONPATH=os.path.join(scratch, 'src'),
                                                  PYTHONDONTWRITEBYTECODE='1'),
                                         capture_output=True, text=True, check=False)
                    rec = {'file': rel, 'line': m['line'], 'kind': m['kind'], 'old': m['old'][:120],
                           'new': m['new'][:120]}
                    if imp.returncode != 0:
                        rec['status'] = 'does-not-import'
                    else:
                        killed, results = run_checks(scratch, RELEVANT[rel], args.timeout)
                        rec['status'] = 'killed' if killed else 'survived'
                        rec['killed_by'] = killed
                        rec['results'] = results
                    with lock:
                        log.write(json.dumps(rec) + '\n')
                        log.flush()
                        print(rec['status'], rel, m['line'], m['kind'], rec.get('killed_by'), flush=True)
                finally:
                    shutil.rmtree(scratch, ignore_errors=True)
        with ThreadPoolExecutor(max_workers=args.jobs) as ex:
            list(ex.map(one, todo))


if __name__ == '__main__':
    sys.exit(main())
