#!/bin/sh
# tools/mutant.sh <property id> <file relative to repo> <python-regex> <replacement> [extra check args]
# Sensitivity run: copy /repo/src to a scratch dir, apply one textual change, run the quick check
# against the copy (VERIF_REPO), delete the copy.  Never touches /repo.  Evidence is not written.
set -e
prop=$1; file=$2; pat=$3; rep=$4; shift 4
scratch=$(mktemp -d /tmp/vf_mut_XXXXXX)
trap 'rm -rf "$scratch"' EXIT
mkdir -p "$scratch/src" && cp -r /repo/src/dznpy "$scratch/src/"
find "$scratch" -name __pycache__ -prune -exec rm -rf {} + 2>/dev/null || true
/venv/bin/python - "$scratch/$file" "$pat" "$rep" <<'PY'
import re, sys
p, pat, rep = sys.argv[1:4]
s = open(p).read()
n, k = re.subn(pat, rep, s, count=1, flags=re.S)
if k != 1:
    sys.exit(f'mutant: pattern not found in {p}')
open(p, 'w').write(n)
PY
cd "$(dirname "$0")/.."
set +e
VERIF_REPO="$scratch" ./check "$prop" --no-evidence "$@" | grep -E '^(VIOLATION|KNOWN-FINDING|C[0-9]+ |HARNESS|---)' | cut -c1-300
echo "mutant done"
