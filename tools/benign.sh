#!/bin/sh
# tools/benign.sh <patch> [checks...]  - false-alarm run: apply a behaviour-preserving patch to a scratch
# copy of /repo and run the quick checks against it; every VIOLATION / HARNESS line is a false alarm
# (or the patch is not behaviour preserving after all - to be triaged by hand).
patch=$(readlink -f "$1"); shift
checks=${*:-C01 C02 C03 C04 C05 C06 C07 C08 C09 C10 C11 C12 C13 C14 C15 C16 C17 C18 C19 C20}
scratch=$(mktemp -d /tmp/vf_benign_XXXXXX)
trap 'rm -rf "$scratch"' EXIT
mkdir -p "$scratch/src" && cp -r /repo/src/dznpy "$scratch/src/"
find "$scratch" -name __pycache__ -prune -exec rm -rf {} + 2>/dev/null || true
(cd "$scratch" && patch -s -p1 < "$patch") || { echo "patch does not apply: $patch"; exit 2; }
cd "$(dirname "$0")/.."
echo "== benign patch $patch"
for c in $checks; do
  VERIF_REPO="$scratch" ./check "$c" --no-evidence 2>&1 | grep -E '^(VIOLATION|HARNESS|--- |C[0-9]+ quick)' | cut -c1-300
done
