#!/bin/sh
# tools/intake_seed2.sh <ID> <sub> <name>  - like intake_seed.sh for a worktree that holds several changes:
# /tmp/seed_<ID>/SEED/<sub>/{patch.diff,demo.py|demo.sh,notes.md}; files it under seeded/<name>/
id=$1; sub=$2; name=$3
wt=/tmp/seed_$id
src=$wt/SEED/$sub
out=/verif/seeded/$name
[ -f $src/patch.diff ] || { echo "no patch in $src"; exit 2; }
demo=$src/demo.py; run="/venv/bin/python"
[ -f $demo ] || { demo=$src/demo.sh; run="sh"; }
cd $wt
git checkout -q -- src && git apply $src/patch.diff || { echo "patch does not apply to the clean tree"; exit 2; }
PYTHONPATH=$wt/src PYTHONDONTWRITEBYTECODE=1 timeout 600 $run $demo > /tmp/intake_with.log 2>&1; rc_with=$?
git apply -R $src/patch.diff
PYTHONPATH=$wt/src PYTHONDONTWRITEBYTECODE=1 timeout 600 $run $demo > /tmp/intake_without.log 2>&1; rc_without=$?
git apply $src/patch.diff
suite=$(cd $wt && /venv/bin/python -m pytest -q -p no:cacheprovider --continue-on-collection-errors 2>&1 | tail -1)
git checkout -q -- src
echo "rc with=$rc_with without=$rc_without suite: $suite"
if [ "$rc_with" != "0" ] && [ "$rc_without" = "0" ]; then
  mkdir -p $out && cp $src/patch.diff $out/ && cp $demo $out/ && cp $src/notes.md $out/notes.md 2>/dev/null
  for f in $src/*; do case "$f" in $src/patch.diff|$src/notes.md|$demo) ;; *) cp -r "$f" $out/ 2>/dev/null;; esac; done
  echo "$rc_with $rc_without $suite" > $out/.confirm
  echo "filed under $out"
else
  echo "NOT CONFIRMED ($name)"; tail -3 /tmp/intake_with.log; tail -3 /tmp/intake_without.log
fi
