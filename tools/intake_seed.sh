#!/bin/sh
# tools/intake_seed.sh <ID> [variant-name]   - confirm a sub-agent's seeded change and file it under seeded/<ID>[-variant]/
# Confirms in the agent's scratch worktree /tmp/seed_<ID>: demo fails with the change, passes without, suite still passes.
id=$1; name=${2:-$1}
wt=/tmp/seed_$id
out=/verif/seeded/$name
[ -f $wt/SEED/patch.diff ] || { echo "no patch in $wt/SEED"; exit 2; }
demo=$wt/SEED/demo.py; run="/venv/bin/python"
[ -f $demo ] || { demo=$wt/SEED/demo.sh; run="sh"; }
cd $wt
# the worktree is brought to exactly "clean tree + SEED/patch.diff" (never git stash: the stash is shared by all worktrees)
git checkout -q -- src && git apply SEED/patch.diff || { echo "patch does not apply to the clean tree"; exit 2; }
echo "== with change:"; PYTHONPATH=$wt/src PYTHONDONTWRITEBYTECODE=1 timeout 600 $run $demo > /tmp/intake_with.log 2>&1; rc_with=$?; tail -3 /tmp/intake_with.log
git apply -R SEED/patch.diff
echo "== without change:"; PYTHONPATH=$wt/src PYTHONDONTWRITEBYTECODE=1 timeout 600 $run $demo > /tmp/intake_without.log 2>&1; rc_without=$?; tail -3 /tmp/intake_without.log
git apply SEED/patch.diff
suite=$(cd $wt && /venv/bin/python -m pytest -q -p no:cacheprovider --continue-on-collection-errors 2>&1 | tail -1)
echo "rc with=$rc_with without=$rc_without suite: $suite"
if [ "$rc_with" != "0" ] && [ "$rc_without" = "0" ]; then
  mkdir -p $out && cp SEED/patch.diff $out/ && cp $demo $out/ && cp SEED/notes.md $out/notes.md 2>/dev/null
  # other demo support files (stubs) the agent may have written
  for f in SEED/*; do case "$f" in SEED/patch.diff|SEED/TASK.md|SEED/PROPERTY.txt|SEED/notes.md|$demo) ;; *) cp -r "$f" $out/ 2>/dev/null;; esac; done
  echo "filed under $out (confirmed: demo rc $rc_with with change, $rc_without without; suite: $suite)" 
  echo "$rc_with $rc_without $suite" > $out/.confirm
else
  echo "NOT CONFIRMED"
fi
