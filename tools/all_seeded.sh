#!/bin/sh
# tools/all_seeded.sh [seed]  - run every seeded change against the check of its property (quick tier);
# prints one line per change: CAUGHT / MISSED.
cd "$(dirname "$0")/.."
seed=${1:-1}
for d in seeded/C*/; do
  name=$(basename "$d"); prop=$(echo "$name" | cut -c1-3)
  out=$(VERIF_SEED=$seed timeout 1800 tools/seeded.sh "$d" "$prop" 2>&1)
  if echo "$out" | grep -q "^VIOLATION"; then echo "CAUGHT $name $(echo "$out" | grep -E '^--- ' | head -1 | cut -c1-120)";
  else echo "MISSED $name $(echo "$out" | tail -1 | cut -c1-160)"; fi
done
