#!/bin/bash
# tools/all_seeded.sh [seed] [parallel]  - run every seeded change against the check of its property
# (quick tier, stopping at the first violation: VERIF_FAST_FAIL); one line per change: CAUGHT / MISSED.
# Changes whose meta.json names another check (C04-f -> C11) are run against that check.
cd "$(dirname "$0")/.."
seed=${1:-1}; par=${2:-3}
one() {
  d=$1; name=$(basename "$d"); prop=$(echo "$name" | cut -c1-3)
  case "$name" in C04-f) prop=C11;; esac
  out=$(VERIF_FAST_FAIL=1 VERIF_SEED=$seed timeout 1800 tools/seeded.sh "$d" "$prop" 2>&1)
  if echo "$out" | grep -q "^VIOLATION"; then echo "CAUGHT $name by $prop $(echo "$out" | grep -E '^--- ' | head -1 | cut -c1-120)";
  else echo "MISSED $name by $prop $(echo "$out" | tail -1 | cut -c1-160)"; fi
}
export seed
for d in seeded/C*/; do
  one "$d" &
  while [ "$(jobs -r | wc -l)" -ge "$par" ]; do sleep 1; done
done
wait
