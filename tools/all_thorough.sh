#!/bin/bash
# tools/all_thorough.sh [ids...]  - smoke / timing run of the thorough tier of every check (no evidence written)
cd "$(dirname "$0")/.."
ids=${*:-C14 C17 C18 C19 C20 C05 C16 C15 C12 C13 C07 C03 C08 C10 C09 C01 C02 C04 C06 C11}
for c in $ids; do
  s=$(date +%s)
  out=$(./check $c --tier thorough --no-evidence 2>&1); rc=$?
  e=$(date +%s)
  echo "$c thorough rc=$rc t=$((e-s))s $(echo "$out" | grep -E '^(VIOLATION|HARNESS)' | head -2 | tr '\n' ' ' | cut -c1-200) | $(echo "$out" | tail -1 | cut -c1-140)"
done
