#!/bin/sh
# tools/seeded.sh <seeded dir or patch file> <property id> [check args...]
# Runs a check against a scratch copy of /repo with the given patch applied (VERIF_REPO); /repo
# itself is not touched.  (Equivalent in-place procedure: git -C /repo apply <patch>; ./check <id>;
# git -C /repo checkout -- .)
set -e
src=$1; prop=$2; shift 2
[ -d "$src" ] && src="$src/patch.diff"
src=$(readlink -f "$src")
scratch=$(mktemp -d /tmp/vf_seed_XXXXXX)
trap 'rm -rf "$scratch"' EXIT
mkdir -p "$scratch/src" && cp -r /repo/src/dznpy "$scratch/src/"
find "$scratch" -name __pycache__ -prune -exec rm -rf {} + 2>/dev/null || true
(cd "$scratch" && patch -s -p1 < "$src") || { echo "patch does not apply"; exit 2; }
cd "$(dirname "$0")/.."
set +e
VERIF_REPO="$scratch" ./check "$prop" --no-evidence "$@" | grep -E '^(VIOLATION|KNOWN-FINDING|C[0-9]+ |HARNESS|---)' | cut -c1-260
