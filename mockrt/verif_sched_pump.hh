// dzn::pump / dzn::shell under the harness-owned scheduler (included by dzn/pump.hh with -DVERIF_SCHED).
#ifndef VERIF_SCHED_PUMP_HH
#define VERIF_SCHED_PUMP_HH
#include <verif_sched.hh>

#include <deque>
#include <functional>
#include <thread>
#include <type_traits>
namespace dzn {
struct pump {
  std::deque<std::function<void()>> q;
  bool stop = false;
  int id;
  std::thread worker;
  long posted = 0, executed = 0;
  static thread_local pump* current;
  pump() {
    id = vs::S().add("pump", true);
    vs::S().ignore_mutex(qm.native_handle());
    worker = std::thread([this] {
      vs::self = id;
      vs::S().start(id);
      run();
    });
  }
  pump(const pump&) = delete;
  ~pump() {
    {
      std::lock_guard<std::mutex> g(qm);
      stop = true;  // the controller no longer runs: hand the token to the worker directly
    }
    {
      std::unique_lock<std::mutex> l(vs::S().m);
      vs::S().current = id;
      vs::S().cv.notify_all();
    }
    worker.join();
  }
  std::mutex qm;  // only contended after the scheduler fell back to free running
  void run() {
    for (;;) {
      vs::S().block(id, [this] { std::lock_guard<std::mutex> g(qm); return stop || !q.empty(); });
      std::function<void()> f;
      {
        std::lock_guard<std::mutex> g(qm);
        if (stop) return;
        f = std::move(q.front());
        q.pop_front();
      }
      current = this;
      f();
      current = nullptr;
      ++executed;
    }
  }
  void operator()(const std::function<void()>& f) {
    {
      std::lock_guard<std::mutex> g(qm);
      q.push_back(f);
      ++posted;
    }
    if (vs::self >= 0) vs::S().yield(vs::self);  // posting is a scheduling point
  }
  void pause() {}
  void resume() {}
  void wait_idle() {}
  bool wait_posted(long, int) { return true; }
};
inline thread_local pump* pump::current = nullptr;

template <typename L, typename R = decltype(std::declval<L>()()),
          typename std::enable_if<std::is_void<R>::value, int>::type = 0>
void shell(dzn::pump& p, L&& l) {
  bool d = false;
  p([&] {
    l();
    d = true;
  });
  vs::S().block(vs::self, [&] { return d; });
}
template <typename L, typename R = decltype(std::declval<L>()()),
          typename std::enable_if<!std::is_void<R>::value, int>::type = 0>
R shell(dzn::pump& p, L&& l) {
  bool d = false;
  R r{};
  p([&] {
    r = l();
    d = true;
  });
  vs::S().block(vs::self, [&] { return d; });
  return r;
}
}  // namespace dzn
#endif
