// Harness-owned recording infrastructure shared by the mock model header and the drivers.
#ifndef VF_REC_HH
#define VF_REC_HH
#include <dzn/locator.hh>
#include <dzn/meta.hh>
#include <dzn/pump.hh>
#include <dzn/runtime.hh>

#include <atomic>
#include <cstdint>
#include <deque>
#include <functional>
#include <initializer_list>
#include <iostream>
#include <map>
#include <mutex>
#include <sstream>
#include <string>
#include <thread>
#include <vector>

namespace vf {
struct State {
  std::mutex out_m;                 // serialises trace output
  std::atomic<long> seq{0};         // handler invocation counter
  std::atomic<long> calls{0};       // caller side counter
  std::atomic<int> threads{0};
  dzn::pump* pump = nullptr;        // the dispatcher the shell uses (for counters), set by the driver
  std::string skip_binding;         // "<port>.<dir>.<event>" the mock component leaves unbound
  void* component = nullptr;        // last constructed mock component
  const dzn::locator* comp_locator = nullptr;  // the locator object the component was given
  std::vector<std::string> comp_services;      // service keys in that locator at construction
  bool comp_saw_pump = false, comp_saw_runtime = false;
  const void* comp_pump = nullptr;
  const void* comp_runtime = nullptr;
  std::mutex forced_m;
  std::map<std::string, std::deque<long>> forced;  // "<port>.<event>" -> forced reply indices
  // honest-arbiter mode of the mock component (C11): grant a claim iff nobody holds it
  bool arb_on = false;
  std::string arb_claim, arb_release;  // "<port>.<event>"
  long arb_grant = 0, arb_deny = 1;
  bool arb_held = false;  // only touched in dispatcher context
  // reactions of the mock component: "<port>.<event>" of a handler it owns -> what it does,
  // synchronously, while handling that event (e.g. raise an out-event)
  std::mutex react_m;
  std::map<std::string, std::function<void()>> reactions;
};
inline State& S() {
  static State s;
  return s;
}
inline int tid() {
  static thread_local int id = -1;
  if (id < 0) id = S().threads++;
  return id;
}
inline void emit(const std::string& line) {
  std::lock_guard<std::mutex> l(S().out_m);
  std::cout << line << "\n" << std::flush;
}
inline std::string jlist(std::initializer_list<long> v) {
  std::ostringstream o;
  o << "[";
  bool first = true;
  for (long x : v) {
    o << (first ? "" : ",") << x;
    first = false;
  }
  o << "]";
  return o.str();
}
inline std::string ctx() {
  std::ostringstream o;
  dzn::pump* p = S().pump;
  o << "\"tid\":" << tid() << ",\"disp\":" << (dzn::pump::current != nullptr ? "true" : "false")
    << ",\"own_pump\":" << ((dzn::pump::current != nullptr && dzn::pump::current == p) ? "true" : "false")
    << ",\"posted\":" << (p ? (long)p->posted : -1) << ",\"executed\":" << (p ? (long)p->executed : -1);
  return o.str();
}
inline long outval(long n, int pos) { return 7000000 + n * 100 + pos; }
// reply index for handler invocation n: a forced value if one is queued, otherwise n % count
inline long reply_index(long n, const std::string& port, const std::string& ev, long count) {
  if (S().arb_on && port + "." + ev == S().arb_claim) {
    if (S().arb_held) return S().arb_deny;
    S().arb_held = true;
    return S().arb_grant;
  }
  std::lock_guard<std::mutex> l(S().forced_m);
  auto it = S().forced.find(port + "." + ev);
  if (it != S().forced.end() && !it->second.empty()) {
    long v = it->second.front();
    it->second.pop_front();
    return v;
  }
  return count > 0 ? n % count : 0;
}
// a handler (bound by the mock component or by the driver on the user side) was invoked
inline void handler(const char* side, const std::string& port, const char* dir, const char* ev, long n,
                    std::initializer_list<long> args, long ret) {
  if (S().arb_on && side[0] == 'c' && port + "." + ev == S().arb_release) S().arb_held = false;
  std::ostringstream o;
  o << "{\"k\":\"h\",\"side\":\"" << side << "\",\"port\":\"" << port << "\",\"dir\":\"" << dir
    << "\",\"ev\":\"" << ev << "\",\"n\":" << n << ",\"args\":" << jlist(args) << ",\"ret\":" << ret << ","
    << ctx() << "}";
  emit(o.str());
  if (side[0] == 'c') {
    std::function<void()> f;
    {
      std::lock_guard<std::mutex> l(S().react_m);
      auto it = S().reactions.find(port + "." + ev);
      if (it != S().reactions.end()) f = it->second;
    }
    if (f) f();
  }
}
inline void begin_call(long id, const char* side, const std::string& port, const char* dir,
                       const char* ev, std::initializer_list<long> args) {
  std::ostringstream o;
  o << "{\"k\":\"c\",\"call\":" << id << ",\"side\":\"" << side << "\",\"port\":\"" << port
    << "\",\"dir\":\"" << dir << "\",\"ev\":\"" << ev << "\",\"args\":" << jlist(args) << "," << ctx() << "}";
  emit(o.str());
}
inline void end_call(long id, long ret, std::initializer_list<long> args) {
  std::ostringstream o;
  o << "{\"k\":\"r\",\"call\":" << id << ",\"ret\":" << ret << ",\"args\":" << jlist(args) << "," << ctx()
    << "}";
  emit(o.str());
}
inline void note(const std::string& what, const std::string& json_fields = "") {
  emit("{\"k\":\"note\",\"what\":\"" + what + "\"" + (json_fields.empty() ? "" : "," + json_fields) + "}");
}
inline std::string esc(const std::string& s) {
  std::string o;
  for (char c : s) {
    if (c == '"' || c == '\\') o += '\\';
    if (c == '\n') {
      o += "\\n";
      continue;
    }
    o += c;
  }
  return o;
}
}  // namespace vf
#endif
