// Harness-owned deterministic scheduler (DESIGN.md section 1.3): real threads, but exactly one runs
// at a time; a token is passed at scheduling points.  The schedule is the generated input.
#ifndef VERIF_SCHED_HH
#define VERIF_SCHED_HH
#include <atomic>
#include <chrono>
#include <condition_variable>
#include <cstdio>
#include <cstdlib>
#include <functional>
#include <map>
#include <mutex>
#include <set>
#include <sstream>
#include <string>
#include <thread>
#include <vector>
namespace vs {
struct Sched {
  enum St { RUNNABLE, BLOCKED, DONE };
  struct Actor {
    std::string name;
    St st = RUNNABLE;
    std::function<bool()> cond;
    bool daemon = false;
  };
  std::mutex m;
  std::condition_variable cv;
  std::vector<Actor> actors;
  int current = -1;  // -1: the controller has the token
  // schedule encodings
  bool sparse = true;
  std::vector<int> dense;
  std::map<long, int> preempt;  // decision index -> actor id
  // "r:<seed>,<stick>": a pseudo-random walk; at every decision the running actor is kept with
  // probability stick/100 (if it is still runnable), otherwise a runnable actor is drawn uniformly.
  // The seed is the generated input; the decisions taken are reported, so a failing walk is replayed
  // (and minimised) as an explicit sparse schedule.
  bool rnd = false;
  unsigned long long rstate = 1;
  int stick = 50;
  unsigned next_rand() {
    rstate = rstate * 6364136223846793005ULL + 1442695040888963407ULL;
    return (unsigned)(rstate >> 33);
  }
  long decision = 0;
  std::map<int, long> recency;  // actor id -> decision at which it last got the token
  int last = -1;
  bool deadlock = false;
  // Fallback (DESIGN 1.3): if the token holder does not reach a scheduling point for STALL_MS (it
  // blocks on something the scheduler does not own, e.g. the std::mutex of MutexWrapped held by a
  // descheduled actor - or by itself), all gating is dropped and the actors run freely.
  std::atomic<bool> free_run{false};
  std::atomic<long> ticks{0};
  int outcome = 0;  // 0 scheduled to the end, 1 completed after falling back to free running,
                    // 2 did not complete even when running freely (real deadlock)
  static constexpr int STALL_MS = 4000;
  static constexpr int FREE_MS = 8000;
  std::vector<std::string> decisions;  // "idx:runnable ids:chosen"

  // --- lock-granularity scheduling points (schedules written with a capital letter: "S:", "R:").
  // The driver interposes pthread_mutex_lock/unlock; for every mutex that is not one of the
  // harness' own, an actor yields before it acquires and is BLOCKED (visibly to the scheduler) while
  // another actor holds it.  This reaches check-then-act splits between two critical sections that
  // have no log / post / wait between them.
  bool lock_points = false;
  std::set<const void*> ignored;
  std::map<const void*, int> held;
  void ignore_mutex(const void* mtx) { ignored.insert(mtx); }  // set-up phase only (single thread)
  bool wants(const void* mtx) {
    return lock_points && !free_run && mtx != (const void*)m.native_handle() && !ignored.count(mtx);
  }
  void before_lock(int me, const void* mtx) {
    yield(me);
    for (;;) {
      {
        std::unique_lock<std::mutex> l(m);
        if (free_run || !held.count(mtx)) {
          if (!free_run) held[mtx] = me;
          return;
        }
      }
      block(me, [this, mtx] { return held.count(mtx) == 0; });
    }
  }
  void after_unlock(const void* mtx) {
    std::unique_lock<std::mutex> l(m);
    held.erase(mtx);
  }

  int add(const std::string& n, bool daemon = false) {
    std::lock_guard<std::mutex> l(m);
    actors.push_back({n, RUNNABLE, nullptr, daemon});
    return (int)actors.size() - 1;
  }
  // --- called by actor threads
  void start(int me) {
    std::unique_lock<std::mutex> l(m);
    cv.wait(l, [&] { return current == me || free_run; });
  }
  void yield(int me) {
    ++ticks;
    std::unique_lock<std::mutex> l(m);
    if (free_run) return;
    current = -1;
    cv.notify_all();
    cv.wait(l, [&] { return current == me || free_run; });
  }
  void block(int me, std::function<bool()> c) {
    ++ticks;
    {
      std::unique_lock<std::mutex> l(m);
      if (!free_run) {
        actors[me].st = BLOCKED;
        actors[me].cond = c;
        current = -1;
        cv.notify_all();
        cv.wait(l, [&] { return current == me || free_run; });
        if (!free_run) return;
        actors[me].st = RUNNABLE;
        actors[me].cond = nullptr;
      }
    }
    for (;;) {  // free running: poll the condition
      {
        std::unique_lock<std::mutex> l(m);
        if (c()) return;
      }
      std::this_thread::sleep_for(std::chrono::milliseconds(1));
    }
  }
  void done(int me) {
    ++ticks;
    std::unique_lock<std::mutex> l(m);
    actors[me].st = DONE;
    current = -1;
    cv.notify_all();
  }
  // --- controller: returns when all non-daemon actors are done or nothing is runnable
  bool users_done() {
    for (auto& a : actors)
      if (!a.daemon && a.st != DONE) return false;
    return true;
  }
  void run() {
    std::unique_lock<std::mutex> l(m);
    for (;;) {
      // wait for the token; give up gating when nothing reaches a scheduling point for STALL_MS
      long seen = ticks;
      int waited = 0;
      while (!cv.wait_for(l, std::chrono::milliseconds(100), [&] { return current == -1; })) {
        if (ticks != seen) {
          seen = ticks;
          waited = 0;
        } else if ((waited += 100) >= STALL_MS) {
          free_run = true;
          cv.notify_all();
          int t = 0;
          while (!users_done() && t < FREE_MS) {
            cv.wait_for(l, std::chrono::milliseconds(50));
            t += 50;
          }
          outcome = users_done() ? 1 : 2;
          return;
        }
      }
      std::vector<int> r;
      bool userdone = true;
      for (size_t i = 0; i < actors.size(); ++i) {
        auto& a = actors[i];
        if (a.st == BLOCKED && a.cond()) {
          a.st = RUNNABLE;
          a.cond = nullptr;
        }
        if (a.st == RUNNABLE) r.push_back((int)i);
        if (!a.daemon && a.st != DONE) userdone = false;
      }
      if (userdone) {
        // let the daemons (the dispatcher) finish the work that is already queued: an out-event
        // posted by the last user step is still delivered (or not) under the oracle's eyes
        std::vector<int> d;
        for (int x : r)
          if (actors[x].daemon) d.push_back(x);
        if (d.empty()) return;
        r = d;
      }
      if (r.empty()) {
        deadlock = true;
        return;
      }
      // default: keep running the current actor; if it cannot run, the most recently run actor
      // that can (after the dispatcher has served a call, the caller goes on), else the lowest id
      int def = r[0];
      long best = -1;
      for (int x : r)
        if (recency[x] > best) {
          best = recency[x];
          def = x;
        }
      int pick = def;
      if (rnd) {
        bool keep = false;
        for (int x : r)
          if (x == last) keep = true;
        if (!(keep && (int)(next_rand() % 100) < stick)) pick = r[next_rand() % r.size()];
      } else if (sparse) {
        auto it = preempt.find(decision);
        if (it != preempt.end())
          for (int x : r)
            if (x == it->second) pick = x;
      } else if ((size_t)decision < dense.size()) {
        pick = r[dense[decision] % r.size()];
      }
      std::ostringstream o;
      o << decision << ":";
      for (size_t i = 0; i < r.size(); ++i) o << (i ? "." : "") << r[i];
      o << ":" << pick << ":" << def;
      decisions.push_back(o.str());
      ++decision;
      last = pick;
      recency[pick] = decision + 1;
      current = pick;
      cv.notify_all();
    }
  }
  void parse(const std::string& s) {  // "s:12=1,30=2" or "d:1,0,2"
    if (s.size() < 2) return;
    if (s[0] == 'S' || s[0] == 'R' || s[0] == 'D') {
      lock_points = true;
      std::string t = s;
      t[0] = (char)(s[0] - 'A' + 'a');
      return parse(t);
    }
    if (s[0] == 'r') {
      rnd = true;
      auto c = s.find(',');
      rstate = std::stoull(s.substr(2, c == std::string::npos ? c : c - 2)) * 2 + 1;
      if (c != std::string::npos) stick = std::stoi(s.substr(c + 1));
      for (int i = 0; i < 3; ++i) next_rand();
      return;
    }
    sparse = s[0] == 's';
    std::stringstream ss(s.substr(2));
    std::string item;
    while (std::getline(ss, item, ',')) {
      if (item.empty()) continue;
      if (sparse) {
        auto eq = item.find('=');
        preempt[std::stol(item.substr(0, eq))] = std::stoi(item.substr(eq + 1));
      } else {
        dense.push_back(std::stoi(item));
      }
    }
  }
};
inline Sched& S() {
  static Sched s;
  return s;
}
inline thread_local int self = -1;
inline thread_local int hooking = 0;  // > 0 while the interposed lock functions call into the scheduler
}  // namespace vs
#endif
