// Harness-owned deterministic scheduler (DESIGN.md section 1.3): real threads, but exactly one runs
// at a time; a token is passed at scheduling points.  The schedule is the generated input.
#ifndef VERIF_SCHED_HH
#define VERIF_SCHED_HH
#include <condition_variable>
#include <cstdio>
#include <cstdlib>
#include <functional>
#include <map>
#include <mutex>
#include <sstream>
#include <string>
#include <vector>
namespace vs {
struct Sched {
  enum St { RUNNABLE, BLOCKED, DONE };
  struct Actor {
    std::string name;
    St st = RUNNABLE;
    std::function<bool()> cond;
    bool daemon = false;
  };
  std::mutex m;
  std::condition_variable cv;
  std::vector<Actor> actors;
  int current = -1;  // -1: the controller has the token
  // schedule encodings
  bool sparse = true;
  std::vector<int> dense;
  std::map<long, int> preempt;  // decision index -> actor id
  long decision = 0;
  int last = -1;
  bool deadlock = false;
  std::vector<std::string> decisions;  // "idx:runnable ids:chosen"

  int add(const std::string& n, bool daemon = false) {
    std::lock_guard<std::mutex> l(m);
    actors.push_back({n, RUNNABLE, nullptr, daemon});
    return (int)actors.size() - 1;
  }
  // --- called by actor threads
  void start(int me) {
    std::unique_lock<std::mutex> l(m);
    cv.wait(l, [&] { return current == me; });
  }
  void yield(int me) {
    std::unique_lock<std::mutex> l(m);
    current = -1;
    cv.notify_all();
    cv.wait(l, [&] { return current == me; });
  }
  void block(int me, std::function<bool()> c) {
    std::unique_lock<std::mutex> l(m);
    actors[me].st = BLOCKED;
    actors[me].cond = c;
    current = -1;
    cv.notify_all();
    cv.wait(l, [&] { return current == me; });
  }
  void done(int me) {
    std::unique_lock<std::mutex> l(m);
    actors[me].st = DONE;
    current = -1;
    cv.notify_all();
  }
  // --- controller: returns when all non-daemon actors are done or nothing is runnable
  void run() {
    std::unique_lock<std::mutex> l(m);
    for (;;) {
      cv.wait(l, [&] { return current == -1; });
      std::vector<int> r;
      bool userdone = true;
      for (size_t i = 0; i < actors.size(); ++i) {
        auto& a = actors[i];
        if (a.st == BLOCKED && a.cond()) {
          a.st = RUNNABLE;
          a.cond = nullptr;
        }
        if (a.st == RUNNABLE) r.push_back((int)i);
        if (!a.daemon && a.st != DONE) userdone = false;
      }
      if (userdone) return;
      if (r.empty()) {
        deadlock = true;
        return;
      }
      int def = r[0];
      for (int x : r)
        if (x == last) def = last;  // default: keep running the current actor
      int pick = def;
      if (sparse) {
        auto it = preempt.find(decision);
        if (it != preempt.end())
          for (int x : r)
            if (x == it->second) pick = x;
      } else if ((size_t)decision < dense.size()) {
        pick = r[dense[decision] % r.size()];
      }
      std::ostringstream o;
      o << decision << ":";
      for (size_t i = 0; i < r.size(); ++i) o << (i ? "." : "") << r[i];
      o << ":" << pick << ":" << def;
      decisions.push_back(o.str());
      ++decision;
      last = pick;
      current = pick;
      cv.notify_all();
    }
  }
  void parse(const std::string& s) {  // "s:12=1,30=2" or "d:1,0,2"
    if (s.size() < 2) return;
    sparse = s[0] == 's';
    std::stringstream ss(s.substr(2));
    std::string item;
    while (std::getline(ss, item, ',')) {
      if (item.empty()) continue;
      if (sparse) {
        auto eq = item.find('=');
        preempt[std::stol(item.substr(0, eq))] = std::stoi(item.substr(eq + 1));
      } else {
        dense.push_back(std::stoi(item));
      }
    }
  }
};
inline Sched& S() {
  static Sched s;
  return s;
}
inline thread_local int self = -1;
}  // namespace vs
#endif
