// Mock of the Dezyne 2.17 C++ runtime: dzn/locator.hh  (harness-owned)
#ifndef VF_MOCK_DZN_LOCATOR_HH
#define VF_MOCK_DZN_LOCATOR_HH
#include <iostream>
#include <map>
#include <stdexcept>
#include <string>
#include <typeinfo>
namespace dzn {
struct locator {
  using Key = std::pair<std::string, std::string>;
  std::map<Key, const void*> services;
  locator() = default;
  locator(const locator&) = delete;  // like the real one: not copyable, movable
  locator(locator&&) = default;
  locator& operator=(locator&&) = default;
  locator clone() const {
    locator l;
    l.services = services;
    return l;
  }
  template <typename T>
  locator& set(T& t, const std::string& key = "") {
    services[Key(typeid(T).name(), key)] = &t;
    return *this;
  }
  template <typename T>
  T* try_get(const std::string& key = "") const {
    auto it = services.find(Key(typeid(T).name(), key));
    return it == services.end() ? nullptr : reinterpret_cast<T*>(const_cast<void*>(it->second));
  }
  template <typename T>
  T& get(const std::string& key = "") const {
    if (T* t = try_get<T>(key)) return *t;
    throw std::runtime_error("<" + std::string(typeid(T).name()) + ",\"" + key + "\"> not available");
  }
};
}  // namespace dzn
#endif
