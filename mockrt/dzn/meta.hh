// Mock of the Dezyne 2.17 C++ runtime: dzn/meta.hh  (harness-owned, see DESIGN.md section 1.2)
#ifndef VF_MOCK_DZN_META_HH
#define VF_MOCK_DZN_META_HH
#include <algorithm>
#include <functional>
#include <map>
#include <memory>
#include <stdexcept>
#include <string>
#include <vector>
namespace dzn {
struct meta;
struct component;
namespace port {
struct meta {
  struct detail {
    std::string name;
    const void* port;
    const dzn::component* component;
    const dzn::meta* meta;
  };
  detail provide;
  detail require;
};
}  // namespace port
struct meta {
  std::string name;
  std::string type;
  const meta* parent = nullptr;
  std::vector<const port::meta*> require;
  std::vector<const meta*> children;
  std::vector<std::function<void()>> ports_connected;
};
struct binding_error : public std::runtime_error {
  binding_error(const port::meta& m, const std::string& msg)
      : std::runtime_error("not connected: " + m.provide.name + "." + m.require.name + "." + msg) {}
};
struct component {};
}  // namespace dzn
#endif
