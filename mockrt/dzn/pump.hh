// Mock of the Dezyne 2.17 C++ runtime: dzn/pump.hh  (harness-owned)
// Instrumented: posted/executed counters, pause/resume/wait_idle, thread_local "current pump".
// With -DVERIF_SCHED the harness-owned scheduler (verif_sched.hh) takes over all blocking.
#ifndef VF_MOCK_DZN_PUMP_HH
#define VF_MOCK_DZN_PUMP_HH
#include <dzn/meta.hh>
#ifdef VERIF_SCHED
#include <verif_sched_pump.hh>
#else
#include <atomic>
#include <condition_variable>
#include <functional>
#include <future>
#include <mutex>
#include <queue>
#include <thread>
#include <type_traits>
namespace dzn {
struct pump {
  std::mutex m;
  std::condition_variable cv;
  std::queue<std::function<void()>> q;
  bool stop = false;
  bool paused = false;
  std::atomic<long> posted{0}, executed{0};
  std::thread worker;
  static thread_local pump* current;  // the pump whose dispatcher thread we are on, or nullptr
  pump() : worker([this] { run(); }) {}
  pump(const pump&) = delete;
  ~pump() {
    {
      std::lock_guard<std::mutex> l(m);
      stop = true;
      paused = false;
    }
    cv.notify_all();
    worker.join();
  }
  void run() {
    for (;;) {
      std::function<void()> f;
      {
        std::unique_lock<std::mutex> l(m);
        cv.wait(l, [&] { return stop || (!paused && !q.empty()); });
        if (q.empty()) return;
        f = std::move(q.front());
        q.pop();
      }
      current = this;
      f();
      current = nullptr;
      {
        std::lock_guard<std::mutex> l(m);
        ++executed;
      }
      cv.notify_all();
    }
  }
  void operator()(const std::function<void()>& f) {
    {
      std::lock_guard<std::mutex> l(m);
      q.push(f);
      ++posted;
    }
    cv.notify_all();
  }
  // --- harness instrumentation
  void pause() {
    std::lock_guard<std::mutex> l(m);
    paused = true;
  }
  void resume() {
    {
      std::lock_guard<std::mutex> l(m);
      paused = false;
    }
    cv.notify_all();
  }
  void wait_idle() {
    std::unique_lock<std::mutex> l(m);
    cv.wait(l, [&] { return q.empty() && posted == executed; });
  }
  bool wait_posted(long n, int ms) {
    std::unique_lock<std::mutex> l(m);
    return cv.wait_for(l, std::chrono::milliseconds(ms), [&] { return posted >= n; });
  }
};
inline thread_local pump* pump::current = nullptr;

template <typename L, typename R = decltype(std::declval<L>()()),
          typename std::enable_if<std::is_void<R>::value, int>::type = 0>
void shell(dzn::pump& p, L&& l) {
  std::promise<void> pr;
  p([&] {
    l();
    pr.set_value();
  });
  pr.get_future().get();
}
template <typename L, typename R = decltype(std::declval<L>()()),
          typename std::enable_if<!std::is_void<R>::value, int>::type = 0>
R shell(dzn::pump& p, L&& l) {
  std::promise<R> pr;
  p([&] { pr.set_value(l()); });
  return pr.get_future().get();
}
}  // namespace dzn
#endif
#endif
