// Mock of the Dezyne 2.17 C++ runtime: dzn/runtime.hh  (harness-owned)
#ifndef VF_MOCK_DZN_RUNTIME_HH
#define VF_MOCK_DZN_RUNTIME_HH
#include <dzn/locator.hh>
#include <dzn/meta.hh>
#include <map>
#include <queue>
#include <tuple>
namespace dzn {
struct runtime {
  runtime() = default;
  runtime(const runtime&) = delete;
};
}  // namespace dzn
#endif
